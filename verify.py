#!/venv/bin/python
"""verify.py <ID> [--tier quick|thorough]  — run one property's check (DESIGN.md §3.6).
exit 0: property held on everything explored; exit 1 + 'VIOLATION property=<id> replay=<path>'."""
import argparse
import importlib
import os
import sys

sys.path.insert(0, os.path.dirname(os.path.abspath(__file__)))
import mc  # noqa: E402  (sets sys.path for the sismic tree under test)


def main():
    ap = argparse.ArgumentParser()
    ap.add_argument('id', nargs='?')
    ap.add_argument('--tier', default=os.environ.get('VERIF_TIER', 'quick'),
                    choices=['quick', 'thorough'])
    ap.add_argument('--selftest', action='store_true')
    a = ap.parse_args()
    seed = int(os.environ.get('VERIF_SEED', '0') or 0)
    if a.selftest:
        import sismic
        from mc import chartgen, engine, schemes
        spec = schemes.make_spec((chartgen.skeletons(2, 2)[0], 'asc', 0, 1, 'given', False))
        res = engine.explore(spec, 1, [engine.oracle_legal])
        assert res['states'] >= 1
        print('selftest ok: sismic from', os.path.dirname(sismic.__file__), 'states', res['states'])
        return 0
    # CPU-time ceiling per exploration task (mc/harness.py): the largest quick task takes well under a minute
    os.environ.setdefault('VERIF_TASK_CPU_S', '600' if a.tier == 'quick' else '5400')
    try:
        mod = importlib.import_module('checks.%s' % a.id.lower())
        return mod.run(a.tier, seed)
    except (Exception, mc.HangError):
        # The checks never raise on a tree where the property holds (they are run on the unchanged
        # tree, several seeds, before being registered): an exception here means the code under
        # test behaved in a way the harness could not even drive, which is reported as a violation.
        import traceback
        import time
        from mc import harness
        tb = traceback.format_exc()
        print(tb)
        v = harness.Violation('%s:aborted' % a.id, '%s check aborted by an unexpected exception: %s'
                              % (a.id, tb.strip().splitlines()[-1]), {'check': a.id, 'traceback': tb})
        cov = {'states': 1, 'transitions': 1, 'traces_validated_against_impl': 0, 'exhaustive': False,
               'samples': ['check aborted'], 'evaluations': 1, 'distinct_nontrivial': 0,
               'rule': 'aborted', 'explanation': 'check aborted by an unexpected exception'}
        return harness.finish(a.id, a.tier, seed, 'other', cov, [v], [], time.time())


if __name__ == '__main__':
    sys.exit(main())
