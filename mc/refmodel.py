"""Reference model of sismic's documented semantics — the oracle.  Imports nothing from sismic.
Written from docs/*.rst and the property statements over plain sets/dicts (see DESIGN.md §3.3).
Where the statements leave freedom the model yields constraints, not one sequence."""
import itertools

from .chartgen import Tree, HIST


class Model:
    def __init__(self, spec):
        self.spec = spec
        self.T = Tree(spec)
        # index = tid, whatever the declaration order of the spec
        self.trans = sorted(spec['transitions'], key=lambda t: t.get('tid', 0)) \
            if all('tid' in t for t in spec['transitions']) else list(spec['transitions'])
        self.hist_parents = {}
        for n in self.T.order:
            if self.T.kind(n) in HIST:
                self.hist_parents[self.T.parent(n)] = n

    # ------------------------------------------------------------------ configurations
    def legal(self, conf):
        """DESIGN §2 legal configuration.  -> (ok, why)"""
        T = self.T
        conf = set(conf)
        if not conf:
            return False, 'empty'
        if T.root not in conf:
            return False, 'root missing'
        for n in conf:
            if n not in T.st:
                return False, 'unknown state %s' % n
            p = T.parent(n)
            if p is not None and p not in conf:
                return False, 'parent of %s inactive' % n
            k = T.kind(n)
            if k in HIST:
                return False, 'history state %s active' % n
            act = [c for c in T.children(n) if c in conf]
            if k == 'C' and len(act) != 1 and not (len(act) == 0 and not T.initial(n)):
                return False, 'compound %s has %d active children' % (n, len(act))
            if k == 'O' and len(act) != len(T.children(n)):
                return False, 'orthogonal %s has %d of %d children active' % (
                    n, len(act), len(T.children(n)))
        return True, ''

    def restore_set(self, h, snaps):
        """what entering history state h re-activates (direct effect, before default completion)"""
        T = self.T
        p = T.parent(h)
        snap = snaps.get(p)
        if snap is None:
            return {T.memory(h)}
        if T.kind(h) == 'HS':
            return {c for c in T.children(p) if c in snap}
        return set(snap)

    def complete(self, conf, snaps):
        """default completion (stabilisation) of a set of active states; empty set = final"""
        T = self.T
        conf = set(conf)
        while True:
            for n in conf:
                if T.kind(n) == 'F' and T.parent(n) == T.root:
                    return set()
            changed = False
            for n in sorted(conf):
                k = T.kind(n)
                if k in HIST:
                    conf.discard(n)
                    conf |= self.restore_set(n, snaps)
                    changed = True
                    break
                if k == 'C' and T.initial(n) and not any(c in conf for c in T.children(n)):
                    conf.add(T.initial(n))
                    changed = True
                    break
                if k == 'O' and any(c not in conf for c in T.children(n)):
                    conf |= set(T.children(n))
                    changed = True
                    break
            if not changed:
                return conf

    def initial_conf(self):
        return self.complete({self.T.root}, {})

    # ------------------------------------------------------------------ selection (C01)
    def select(self, conf, pending, val):
        """conf: active states; pending: name of the next pending event or None;
        val: set of tids whose guard is true (unguarded transitions are always true).
        -> (fired tids, eventless?)"""
        T = self.T
        enabled = []
        for tid, tr in enumerate(self.trans):
            if tr['source'] not in conf:
                continue
            if tr.get('guard') is not None and tid not in val:
                continue
            if tr.get('event') is not None and tr['event'] != pending:
                continue
            enabled.append(tid)
        evless = [i for i in enabled if self.trans[i].get('event') is None]
        comp = evless if evless else enabled
        fired = []
        for i in comp:
            s = self.trans[i]['source']
            pr = self.trans[i].get('priority', 0)
            if any(self.trans[j]['source'] in T.desc(s) for j in comp):
                continue
            if any(self.trans[j]['source'] == s and self.trans[j].get('priority', 0) > pr
                   for j in comp):
                continue
            fired.append(i)
        return fired, bool(evless)

    # ------------------------------------------------------------------ conflicts (C04)
    def classify(self, fired):
        """'ok' | 'nondet' | 'conflict' | 'either' (both error conditions present) | 'dontcare'"""
        T = self.T
        nondet = conflict = dontcare = False
        for a, b in itertools.combinations(fired, 2):
            sa, sb = self.trans[a]['source'], self.trans[b]['source']
            o = None
            if sa != sb:
                common = [x for x in T.anc(sa) if x in T.anc(sb)]
                for x in common:          # nearest common proper ancestor first
                    if T.region_of(x, sa) != T.region_of(x, sb):
                        o = x
                        break
            if o is None or T.kind(o) != 'O':
                nondet = True
                continue
            for i in (a, b):
                tr = self.trans[i]
                tgt = tr.get('target')
                if tgt is None:
                    continue
                region = T.region_of(o, tr['source'])
                if tgt == region:
                    dontcare = True
                elif tgt not in T.desc(region):
                    conflict = True
        if nondet and conflict:
            return 'either'
        if nondet:
            return 'nondet'
        if conflict:
            return 'conflict'
        if dontcare:
            return 'dontcare'
        return 'ok'

    def order(self, fired):
        return sorted(fired, key=lambda i: (-self.T.depth(self.trans[i]['source']),
                                            self.trans[i]['source']))

    # ------------------------------------------------------------------ step prediction (C03/C06)
    def predict_transition(self, conf, snaps, tid):
        """-> dict(exit=set, path=list outermost-first, conf_after_main=set, snaps=dict(new),
                   completed=set (after default completion))   (conf/snaps are not mutated)"""
        T = self.T
        tr = self.trans[tid]
        conf = set(conf)
        snaps = dict(snaps)
        tgt = tr.get('target')
        if tgt is None:
            return {'exit': set(), 'path': [], 'conf_main': conf, 'snaps': snaps,
                    'completed': self.complete(conf, snaps)}
        src = tr['source']
        lca = T.lca_proper(src, tgt)
        scope_child = T.child_towards(lca, src)
        exit_set = {x for x in [scope_child] + T.desc(scope_child) if x in conf}
        for x in exit_set:
            if x in self.hist_parents:
                snaps[x] = frozenset(d for d in T.desc(x) if d in conf)
        chain = [tgt] + T.anc(tgt)
        if lca is not None:
            chain = chain[:chain.index(lca)]
        path = chain[::-1]
        conf_main = (conf - exit_set) | set(path)
        return {'exit': exit_set, 'path': path, 'conf_main': conf_main, 'snaps': snaps,
                'completed': self.complete(conf_main, snaps)}

    def predict_step(self, conf, snaps, fired):
        """apply fired transitions in documented order -> (conf, snaps, [per-transition records])"""
        recs = []
        conf = set(conf)
        for tid in self.order(fired):
            r = self.predict_transition(conf, snaps, tid)
            r['tid'] = tid
            r['before'] = set(conf)
            recs.append(r)
            conf, snaps = r['completed'], r['snaps']
        return conf, snaps, recs

    # ------------------------------------------------------------------ observation helpers
    def observe_snaps(self, conf_before, snaps, macro_steps):
        """update history snapshots by *observing* the exit lists of a macro step
        (used to key BFS states; independent of predict_*)."""
        T = self.T
        snaps = dict(snaps)
        conf = set(conf_before)
        for ms in macro_steps:
            pre = set(conf)
            for x in ms.exited_states:
                if x in self.hist_parents:
                    snaps[x] = frozenset(d for d in T.desc(x) if d in pre)
                conf.discard(x)
            for x in ms.entered_states:
                conf.add(x)
        return snaps


def canon_snaps(snaps):
    return tuple(sorted((k, tuple(sorted(v))) for k, v in snaps.items()))
