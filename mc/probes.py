"""Probes injected through `initial_context`.  They append to one ordered log and read the
explorer's current environment choice.  They never touch the interpreter."""

LOG = []          # ordered log of everything the chart's code did
VAL = set()       # guard ids that are true in the current step (environment choice)
GSEEN = []        # (tid, event-object) for every guard evaluation
CVAL = {'fail_at': None, 'count': 0}   # C08: index of the condition evaluation that must fail
HOOKS = {}        # name -> callable, used by ADV etc.


def reset():
    LOG.clear()
    GSEEN.clear()
    CVAL['count'] = 0


def P(*a):
    LOG.append(a)


def G(tid, ev):
    GSEEN.append((tid, ev))
    return tid in VAL


def C(cid, *a):
    """contract condition probe: logs its evaluation; the explorer chooses which evaluation fails"""
    i = CVAL['count']
    CVAL['count'] = i + 1
    LOG.append(('c', cid) + a)
    if CVAL.get('all_false'):
        return False
    return i != CVAL['fail_at']


def ADV(delta):
    """advance the clock of the interpreter under test from inside a step"""
    HOOKS['adv'](delta)
    LOG.append(('adv', delta))


def CONTEXT():
    return {'P': P, 'G': G, 'C': C, 'ADV': ADV}
