"""Stateless exhaustive schedule enumeration over real Python threads (DESIGN.md §3.5).

One baton: exactly one controlled thread runs at a time.  A controlled thread reaching a scheduling
point parks on its own semaphore and hands control to the explorer (the thread that called
Execution.run).  Scheduling points are (a) every operation of the Event / Thread / time shims that
replace `threading` and `time` inside a module's namespace and (b) `line` events of sys.settrace in a
chosen set of code objects.  An execution is identified by its list of choices (index into the
canonical list of enabled threads at every decision); explore() enumerates all executions whose
number of deviations (preemptions) stays within a bound."""
import sys
import threading as _threading
import traceback


class Abort(BaseException):
    """raised inside controlled threads to unwind them when an execution is torn down"""


class ReplayDivergence(Exception):
    pass


class CThread:
    def __init__(self, tid, target, name):
        self.tid = tid
        self.target = target
        self.name = name
        self.sem = _threading.Semaphore(0)
        self.finished = False
        self.started = False
        self.enabled_fn = None
        self.is_yield = False
        self.pending = ('start', None)
        self.real = None
        self.error = None


class Execution:
    def __init__(self, prefix=(), trace_codes=(), horizon=2500):
        self.prefix = list(prefix)
        self.codes = set(trace_codes)
        self.horizon = horizon
        self.threads = []
        self.by_ident = {}
        self.ctrl = _threading.Semaphore(0)
        self.poison = False
        self.decisions = []      # (order tids, costs per alternative, chosen index, label)
        self.outcome = None      # 'done' | 'deadlock' | 'horizon'
        self.log = []            # user log: (seq, tid, tag, data)
        self.vtime = 0.0
        self.blocked_info = None

    # ------------------------------------------------------------------ threads
    def spawn(self, target, name):
        t = CThread(len(self.threads), target, name)
        self.threads.append(t)

        def body():
            t.sem.acquire()
            self.by_ident[_threading.get_ident()] = t
            if not self.poison:
                sys.settrace(self._tracer)
                try:
                    t.target()
                except Abort:
                    pass
                except BaseException as e:       # noqa
                    t.error = (type(e).__name__, str(e)[:200], traceback.format_exc()[-600:])
                finally:
                    sys.settrace(None)
            t.finished = True
            self.ctrl.release()
        t.real = _threading.Thread(target=body, name='ctl-%s' % name, daemon=True)
        t.real.start()
        t.started = True
        return t

    def current(self):
        return self.by_ident.get(_threading.get_ident())

    def note(self, tag, data=None):
        t = self.current()
        self.log.append((len(self.log), t.tid if t else -1, tag, data))

    # ------------------------------------------------------------------ scheduling points
    def point(self, kind, info=None, enabled_fn=None, is_yield=False):
        t = self.current()
        if t is None or self.poison:
            if t is not None and self.poison:
                raise Abort()
            return
        t.pending = (kind, info)
        t.enabled_fn = enabled_fn
        t.is_yield = is_yield
        self.ctrl.release()
        t.sem.acquire()
        t.enabled_fn = None
        t.is_yield = False
        if self.poison:
            raise Abort()

    def _tracer(self, frame, event, arg):
        if frame.f_code in self.codes:
            return self._local
        return None

    def _local(self, frame, event, arg):
        if event == 'line':
            self.point('line', (frame.f_code.co_name, frame.f_lineno))
        return self._local

    # ------------------------------------------------------------------ controller
    def run(self):
        """drive the execution to completion from the calling (explorer) thread"""
        running = None
        steps = 0
        while True:
            alive = [t for t in self.threads if not t.finished]
            if not alive:
                self.outcome = 'done'
                break
            enabled = [t for t in alive if t.enabled_fn is None or t.enabled_fn()]
            if not enabled:
                self.outcome = 'deadlock'
                self.blocked_info = [(t.name, t.pending) for t in alive]
                break
            others = sorted([t for t in enabled if t is not running], key=lambda t: t.tid)
            if running is not None and running in enabled:
                if running.is_yield and others:
                    order = others + [running]
                    costs = [0] + [1] * (len(order) - 1)
                else:
                    order = [running] + others
                    costs = [0] + [1] * len(others)
            else:
                order = others
                costs = [0] + [1] * (len(others) - 1)
            i = len(self.decisions)
            if i < len(self.prefix):
                c = self.prefix[i]
                if c >= len(order):
                    self._teardown()
                    raise ReplayDivergence('decision %d: choice %d of %d' % (i, c, len(order)))
            else:
                c = 0
            nxt = order[c]
            self.decisions.append(([t.tid for t in order], costs, c, (nxt.name, nxt.pending)))
            running = nxt
            nxt.sem.release()
            self.ctrl.acquire()
            steps += 1
            if steps > self.horizon:
                self.outcome = 'horizon'
                self.blocked_info = [(t.name, t.pending) for t in alive]
                break
        self._teardown()
        return self

    def _teardown(self):
        self.poison = True
        for t in self.threads:
            if not t.finished:
                t.sem.release()
        for t in self.threads:
            t.real.join(timeout=5)

    # ------------------------------------------------------------------ summaries
    def choices(self):
        return [d[2] for d in self.decisions]

    def cost_before(self, i):
        return sum(d[1][d[2]] for d in self.decisions[:i])

    def errors(self):
        return [(t.name,) + t.error for t in self.threads if t.error]


# ====================================================================== shims
class ShimEvent:
    def __init__(self, ex_ref):
        self._ex = ex_ref
        self._flag = False

    def set(self):
        self._ex().point('Event.set')
        self._flag = True

    def clear(self):
        self._ex().point('Event.clear')
        self._flag = False

    def is_set(self):
        self._ex().point('Event.is_set')
        return self._flag

    def wait(self, timeout=None):
        self._ex().point('Event.wait', None, enabled_fn=lambda: self._flag)
        self._ex().note('gate', getattr(self, 'tag', None))     # the waiting thread got through
        return self._flag


class ShimThread:
    def __init__(self, ex_ref, target=None, name=None, args=(), kwargs=None, daemon=None):
        self._ex = ex_ref
        self._target = target
        self._args = args
        self._kwargs = kwargs or {}
        self._ct = None
        self.name = name or 'runner'

    def start(self):
        ex = self._ex()
        ex.point('Thread.start')
        if self._ct is not None:
            raise RuntimeError('threads can only be started once')
        self._ct = ex.spawn(lambda: self._target(*self._args, **self._kwargs), self.name)

    def is_alive(self):
        self._ex().point('Thread.is_alive')
        return self._ct is not None and not self._ct.finished

    def join(self, timeout=None):
        ct = self._ct
        self._ex().point('Thread.join', None, enabled_fn=lambda: ct is None or ct.finished)


class ShimLock:
    def __init__(self, ex_ref):
        self._ex = ex_ref
        self._locked = False

    def acquire(self, blocking=True, timeout=-1):
        self._ex().point('Lock.acquire', None, enabled_fn=lambda: not self._locked)
        self._locked = True
        return True

    def release(self):
        self._locked = False
        self._ex().point('Lock.release')

    def locked(self):
        return self._locked

    def __enter__(self):
        self.acquire()
        return self

    def __exit__(self, *a):
        self.release()


class ShimThreading:
    def __init__(self, ex_ref):
        self._ex = ex_ref

    def Lock(self):
        return ShimLock(self._ex)

    def RLock(self):
        return ShimLock(self._ex)

    def Event(self):
        return ShimEvent(self._ex)

    def Thread(self, *a, **kw):
        return ShimThread(self._ex, *a, **kw)


class ShimTime:
    def __init__(self, ex_ref):
        self._ex = ex_ref

    def time(self):
        ex = self._ex()
        ex.vtime += 0.001
        return ex.vtime

    def sleep(self, d):
        # a yield: by default the scheduler switches (for free) to another enabled thread
        self._ex().point('sleep', d, is_yield=True)


# ====================================================================== exploration
def explore(run_one, bound, prefix=(), max_executions=None, on_result=None):
    """run_one(prefix) -> Execution (already run) ; enumerates all executions within `bound`
    deviations that extend `prefix`.  -> number of executions"""
    n = 0
    stack = [list(prefix)]
    while stack:
        p = stack.pop()
        ex = run_one(p)
        n += 1
        prune = on_result(ex, p) if on_result else False
        if max_executions and n >= max_executions:
            break
        if prune:
            continue        # a violating execution is reported; its extensions are not explored
        ch = ex.choices()
        for i in range(len(p), len(ex.decisions)):
            order, costs, c, _ = ex.decisions[i]
            base = ex.cost_before(i)
            for alt in range(1, len(order)):
                if base + costs[alt] <= bound:
                    stack.append(ch[:i] + [alt])
    return n
