"""Plumbing shared by all checks: parallel fan-out, aggregation, evidence, known findings,
replay files (DESIGN.md §3.6)."""
import collections
import hashlib
import json
import multiprocessing
import signal
import os
import re
import sys
import time

from . import VERIF_DIR

EVIDENCE_DIR = os.environ.get('VERIF_EVIDENCE_DIR') or os.path.join(VERIF_DIR, 'evidence')
REPLAY_DIR = os.path.join(os.environ['VERIF_EVIDENCE_DIR'], 'replays') if os.environ.get(
    'VERIF_EVIDENCE_DIR') else os.path.join(VERIF_DIR, 'replays')
KNOWN = os.path.join(VERIF_DIR, 'known_findings.json')


def workers():
    return int(os.environ.get('VERIF_WORKERS', min(16, os.cpu_count() or 1)))


def task_cpu_s():
    return float(os.environ.get('VERIF_TASK_CPU_S', '3600'))


class TaskTimeout(Exception):
    pass


def _on_vtalrm(signum, frame):
    raise TaskTimeout('one exploration task used more than %.0f s of CPU: the code under test does not terminate '
                      '(or the bound is far too large)' % task_cpu_s())


_ABORT = multiprocessing.get_context('fork').Event()     # set by the first task that met code which never terminates


class _Guarded:
    """picklable wrapper: runs func(task) under a CPU-time ceiling, so that code under test that never terminates
    turns into an aborted check (reported as a violation by verify.py) instead of a check that never ends"""

    def __init__(self, func):
        self.func = func

    def __call__(self, task):
        from . import HangError
        if _ABORT.is_set():
            raise RuntimeError('exploration abandoned: another task met code under test that does not terminate')
        try:
            signal.signal(signal.SIGVTALRM, _on_vtalrm)
            signal.setitimer(signal.ITIMER_VIRTUAL, task_cpu_s())
        except ValueError:
            return self.func(task)
        try:
            return self.func(task)
        except (HangError, TaskTimeout) as e:
            # tell the other workers to give up at once (every further task would wait for its own watchdog), and
            # hand an ordinary exception to the pool (a BaseException would kill the worker and lose the task)
            _ABORT.set()
            raise RuntimeError('%s: %s' % (type(e).__name__, e))
        finally:
            signal.setitimer(signal.ITIMER_VIRTUAL, 0)


def pmap(func, tasks, chunksize=1):
    """ordered parallel map with fork workers (falls back to serial for 1 worker / few tasks)"""
    tasks = list(tasks)
    n = workers()
    if n <= 1 or len(tasks) <= 1:
        return [_Guarded(func)(t) for t in tasks]
    ctx = multiprocessing.get_context('fork')
    for attempt in (1, 2):
        pool = ctx.Pool(min(n, len(tasks)))
        try:
            out = pool.map(_Guarded(func), tasks, chunksize)
            pool.close()        # let the workers exit by themselves (a coverage run writes its data at exit)
            return out
        except (BrokenPipeError, EOFError, ConnectionError) as e:
            # the machinery's own plumbing failed (a worker process was killed from outside): the tasks are pure
            # functions of their arguments, so the map is simply run again, once
            pool.terminate()
            sys.stderr.write('pmap: %s while talking to the workers, attempt %d\n' % (type(e).__name__, attempt))
            if attempt == 2:
                raise
        except BaseException:
            pool.terminate()
            raise
        finally:
            pool.join()


class Agg:
    """aggregate of per-task exploration results"""

    def __init__(self):
        self.programs = 0
        self.states = 0
        self.transitions = 0
        self.outcomes = collections.Counter()
        self.violations = []
        self.nviol = 0
        self.exhaustive = True
        self.max_depth = 0
        self.extra = collections.Counter()
        self.closed = False

    def add(self, res, program=None):
        self.programs += 1
        self.states += res.get('states', 0)
        self.transitions += res.get('transitions', 0)
        self.outcomes.update(res.get('outcomes', {}))
        self.exhaustive = self.exhaustive and res.get('exhaustive', True)
        self.max_depth = max(self.max_depth, res.get('max_depth', 0))
        self.nviol += res.get('nviol', len(res.get('violations', [])))
        self.extra.update(res.get('extra', {}))
        for v in res.get('violations', []):
            if len(self.violations) < 200:
                v = dict(v)
                if program is not None and 'program' not in v:
                    v['program'] = program
                self.violations.append(v)


class Violation:
    def __init__(self, sig, message, replay):
        self.sig = sig            # stable signature used to match known findings
        self.message = message
        self.replay = replay      # JSON-able dict, enough to re-run the case


def load_known():
    if not os.path.exists(KNOWN):
        return []
    with open(KNOWN) as f:
        return json.load(f).get('findings', [])


def finish(pid, tier, seed, level, coverage, violations, assumptions, t0):
    """write evidence, print VIOLATION / KNOWN-FINDING lines, return exit code"""
    os.makedirs(EVIDENCE_DIR, exist_ok=True)
    os.makedirs(REPLAY_DIR, exist_ok=True)
    known = [k for k in load_known() if k.get('property') == pid and k.get('status') == 'open']
    new, hits = [], collections.OrderedDict()
    for v in violations:
        for k in known:
            if re.search(k['match'], v.sig):
                hits.setdefault(k['id'], (k, v))
                break
        else:
            new.append(v)
    for kid, (k, v) in hits.items():
        print('KNOWN-FINDING: property=%s %s [%s]' % (pid, k['what'], kid))
    shown = set()
    rc = 0
    if new:
        cnt = collections.Counter(v.sig for v in new)
        for sig, c in cnt.most_common(12):
            print('  [%d x] %s' % (c, sig))
    for v in new:
        rc = 1
        if v.sig in shown or len(shown) >= 5:
            continue
        shown.add(v.sig)
        blob = json.dumps(v.replay, sort_keys=True, default=str)
        h = hashlib.sha1(blob.encode()).hexdigest()[:10]
        path = os.path.join(REPLAY_DIR, '%s-%s.json' % (pid, h))
        with open(path, 'w') as f:
            json.dump({'property': pid, 'sig': v.sig, 'message': v.message, 'replay': v.replay},
                      f, indent=1, sort_keys=True, default=str)
        print('  %s' % v.message)
        print('VIOLATION property=%s replay=%s' % (pid, path))
    ev = {
        'property_id': pid, 'tier': tier, 'seed': seed, 'level': level,
        'coverage': coverage, 'assumptions': assumptions,
        'wall_s': round(time.time() - t0, 2),
        'violations': len(new),
        'known_findings_reproduced': sorted(hits),
    }
    with open(os.path.join(EVIDENCE_DIR, pid + '.json'), 'w') as f:
        json.dump(ev, f, indent=1, default=str)
    print('%s tier=%s seed=%d: %s violations=%d known=%d wall=%.1fs' % (
        pid, tier, seed, _short(coverage), len(new), len(hits), time.time() - t0))
    sys.stdout.flush()
    return rc


def _short(cov):
    keys = ('programs', 'states', 'transitions', 'traces_validated_against_impl', 'evaluations',
            'distinct_nontrivial', 'exhaustive')
    return ' '.join('%s=%s' % (k, cov[k]) for k in keys if k in cov)


def pick_samples(items, seed, n=3):
    """deterministic, seed-rotated choice of a few samples"""
    items = list(items)
    if not items:
        return []
    out = []
    for i in range(n):
        out.append(items[(seed * 7919 + i * 104729) % len(items)])
    return out


def level_bfs(expand, roots, depth):
    """level-synchronous parallel BFS with a global seen-set.
    expand((item, last)) -> dict(children=[(key, item)], + Agg-able counters); roots: [(key, item)].
    -> (Agg, number of states)"""
    agg = Agg()
    seen = set(k for k, _ in roots)
    frontier = [it for _, it in roots]
    n = workers()
    ctx = multiprocessing.get_context('fork')
    pool = ctx.Pool(n) if n > 1 else None
    try:
        for level in range(depth + 1):
            last = level == depth
            tasks = [(it, last) for it in frontier]
            if pool is not None and len(tasks) > 1:
                results = pool.map(expand, tasks, max(1, len(tasks) // (n * 8)))
            else:
                results = [expand(t) for t in tasks]
            nxt = []
            for r in results:
                agg.add(r)
                for key, item in r.get('children', ()):
                    if key not in seen:
                        seen.add(key)
                        nxt.append(item)
            agg.programs = 0
            agg.max_depth = level
            frontier = nxt
            if not frontier:
                if not last:
                    agg.closed = True   # the (capped) state space was explored completely
                break
    finally:
        if pool is not None:
            pool.close()
            pool.join()
    agg.states = len(seen)
    return agg
