"""Explicit-state exploration of the real Interpreter over a saturated (scheme S) chart.

state  = (configuration, history snapshots) — reached by replaying a history of environment
         choices on a *fresh* real Interpreter (DESIGN.md §3.4)
op     = ('E', tids)  queue event 'e' with exactly the guards `tids` true, then execute_once
         ('U',)       queue an event nobody handles, execute_once
         ('N',)       execute_once with nothing pending
Each executed (state, op) is handed to the oracles selected by the calling check.
"""
import collections
import itertools
import signal

from . import probes
from .chartgen import build_api, build_yaml, build_api_rebuilt, build_api_moved, Tree, HIST
from .refmodel import Model, canon_snaps

from sismic.interpreter import Interpreter
from sismic.exceptions import NonDeterminismError, ConflictingTransitionsError


class Exec:
    """one executed (state, op): everything the oracles may look at"""
    __slots__ = ('hist', 'op', 'conf_before', 'snaps_before', 'outcome', 'step', 'log', 'gseen',
                 'conf_after', 'final_after', 'exc', 'it', 'drain', 'ctx_before', 'ctx_after',
                 'leftovers', 'log_after_drain', 'mutated')


from . import HangError      # noqa: E402  (the watchdog lives in mc/__init__.py and covers every execute_once call)


def guarded_execute_once(it):
    return it.execute_once()


class Runner:
    def __init__(self, spec, builder='api', event='e', extra_context=None, interp_kwargs=None,
                 prebuilt=None, observe=False, bystander=False):
        self.observe = observe
        self.bystander = bystander
        self.shadow = None
        self.spec = spec
        self.model = Model(spec)
        self.T = self.model.T
        if prebuilt is not None:
            self.sc, self.objs = prebuilt
        elif builder == 'rebuilt':
            self.sc, self.objs = build_api_rebuilt(spec)
        elif builder == 'moved':
            self.sc, self.objs = build_api_moved(spec)
        elif builder == 'api':
            self.sc, self.objs = build_api(spec)
        else:
            self.sc, self.objs = build_yaml(spec)
        self.tid_of = {id(o): spec['transitions'][i].get('tid', i) for i, o in enumerate(self.objs or [])}
        self.event = event
        self.extra_context = extra_context or {}
        self.interp_kwargs = interp_kwargs or {}
        self.leftovers = []
        self.kept = []          # (MacroStep, signature when it was returned) of the current run
        self.delayed_event = False

    # ----------------------------------------------------------------- real execution
    def new_interpreter(self):
        ctx = probes.CONTEXT()
        ctx.update(self.extra_context)
        it = Interpreter(self.sc, initial_context=ctx, **self.interp_kwargs)
        if self.observe:
            # a client that looks at the public state in the middle of a step (on every meta-event); reading
            # must not change anything
            it.attach(lambda ev: (it.configuration, it.time, it.final))
        return it

    def tid(self, transition):
        t = self.tid_of.get(id(transition))
        if t is None:   # e.g. after a copy: fall back to the guard / action text
            try:
                t = int(transition.guard.split('(')[1].split(',')[0])
            except Exception:
                try:
                    t = int(transition.action.split("'ac',")[1].split(')')[0])
                except Exception:
                    t = -1
        return t

    def apply(self, it, op, drain=True):
        """apply one op to a live interpreter -> (outcome, step, exc)"""
        probes.VAL.clear()
        if op[0] == 'E':
            probes.VAL.update(op[1])
            if self.delayed_event:
                # the triggering event carries a delay and is due when the step starts
                from sismic.model import Event as _Event
                it.queue(_Event(self.event, delay=1))
                it.clock.time += 1
            else:
                it.queue(self.event)
        elif op[0] == 'U':
            it.queue('zz_unhandled')
        try:
            step = guarded_execute_once(it)
        except (NonDeterminismError, ConflictingTransitionsError) as e:
            return type(e).__name__, None, e
        finally:
            probes.VAL.clear()
        # drain: events still queued (the event itself after an eventless step, internal events
        # sent by the fragments) are consumed with all guards false by transition-less steps, so
        # that the queues are not part of the explored state
        if step is not None:
            self.kept.append((step, _step_sig(step)))
        self.leftovers = []
        if drain:
            while len(self.leftovers) < 64:
                d = guarded_execute_once(it)
                if d is None:
                    break
                self.leftovers.append(d)
        return ('step' if step is not None else 'none'), step, None

    def fresh(self, hist):
        it = self.new_interpreter()
        self.kept = []
        first = guarded_execute_once(it)
        if first is not None:
            self.kept.append((first, _step_sig(first)))
        while guarded_execute_once(it) is not None:
            pass
        for op in hist:
            self.apply(it, op)
        return it

    def execute(self, hist, op, conf_before, snaps_before):
        it = self.fresh(hist)
        if self.bystander:
            # a second interpreter of the very same Statechart object is created and driven (through a shorter
            # history) while the first one is alive: interpreters must not share anything mutable
            if self.shadow is None:
                self.shadow = Runner(self.spec, prebuilt=(self.sc, self.objs), event=self.event,
                                     extra_context=self.extra_context, interp_kwargs=self.interp_kwargs)
            kept = self.kept
            self._by = self.shadow.fresh(hist[:-1] if hist else ())
            self.kept = kept
        ex = Exec()
        ex.hist, ex.op = hist, op
        ex.conf_before, ex.snaps_before = conf_before, snaps_before
        ex.ctx_before = _plain_ctx(it.context)
        probes.reset()
        try:
            ex.outcome, ex.step, ex.exc = self.apply(it, op, drain=False)
        except Exception as e:      # anything else escaping execute_once
            ex.outcome, ex.step, ex.exc = 'crash:' + type(e).__name__, None, e
        ex.log = list(probes.LOG)
        ex.gseen = list(probes.GSEEN)
        ex.leftovers = []
        if ex.exc is None:
            try:
                while len(ex.leftovers) < 64:
                    d = guarded_execute_once(it)
                    if d is None:
                        break
                    ex.leftovers.append(d)
            except Exception as e:
                ex.outcome, ex.exc = 'crash:' + type(e).__name__, e
        ex.log_after_drain = list(probes.LOG)
        # macro steps returned earlier in this run must still say what they said when they were returned
        ex.mutated = ['macro step #%d of the run said %r when it was returned and now says %r'
                      % (i, sig[1], _step_sig(st)[1]) for i, (st, sig) in enumerate(self.kept) if _step_sig(st) != sig]
        ex.conf_after = frozenset(it.configuration)
        ex.final_after = it.final
        ex.ctx_after = _plain_ctx(it.context)
        ex.it = it
        ex.drain = None
        if ex.exc is not None:
            # what is still pending after the failed call?  all guards false: the event, if it was
            # left in the queue as it must be, is consumed by a transition-less step
            probes.reset()
            try:
                d = guarded_execute_once(it)
                ex.drain = ('step', d.event.name if d is not None and d.event else None,
                            len(d.transitions) if d is not None else 0) if d is not None else ('none',)
            except Exception as e:
                ex.drain = ('crash', type(e).__name__)
        return ex

    # ----------------------------------------------------------------- op menu
    def ops_for(self, conf, k, extra=True):
        cands = [i for i, tr in enumerate(self.model.trans) if tr['source'] in conf
                 and tr.get('guard') is not None]
        ops = []
        if k == '2o':
            # sub-bound: singles + every pair of transitions whose sources lie in different regions
            T = self.T
            ops += [('E', (c,)) for c in cands]
            for c in itertools.combinations(cands, 2):
                a, b = [self.model.trans[i]['source'] for i in c]
                if a != b and a not in T.anc(b) and b not in T.anc(a):
                    ops.append(('E', c))
            k = 0
        if k == '3o':
            # sub-bound: singles (to move around) + every triple of transitions whose sources are
            # pairwise in different regions of a common orthogonal state
            T = self.T
            ops += [('E', (c,)) for c in cands]
            for c in itertools.combinations(cands, 3):
                srcs = [self.model.trans[i]['source'] for i in c]
                if len(set(srcs)) == 3 and all(
                        a not in T.anc(b) and b not in T.anc(a)
                        for a, b in itertools.combinations(srcs, 2)):
                    ops.append(('E', c))
            k = 0
        if k == '3m':
            # sub-bound: singles + every triple of transitions that involves at least two regions (two sources
            # that are not on one ancestor chain): e.g. two transitions of one state + one of a sibling region
            T = self.T
            ops += [('E', (c,)) for c in cands]
            for c in itertools.combinations(cands, 3):
                srcs = [self.model.trans[i]['source'] for i in c]
                if any(a != b and a not in T.anc(b) and b not in T.anc(a)
                       for a, b in itertools.combinations(srcs, 2)):
                    ops.append(('E', c))
            k = 0
        for r in range(1, k + 1):
            ops += [('E', c) for c in itertools.combinations(cands, r)]
        if extra:
            ops += [('E', ()), ('U',), ('N',)]
        return ops


def _step_sig(step):
    return (step.event.name if step.event is not None else None,
            tuple((id(ms.transition), tuple(ms.exited_states), tuple(ms.entered_states),
                   tuple(e.name for e in ms.sent_events)) for ms in step.steps))


def _plain_ctx(ctx):
    out = {}
    for key, v in ctx.items():
        if callable(v):
            continue
        out[key] = repr(v)
    return out


def explore(spec, k, oracles, builder='api', max_states=100000, k_by_arity=None, extra_ops=True,
            runner=None, on_exec=None, observe=False, bystander=False):
    """complete BFS over (configuration, snapshots).
    oracles: list of callables (runner, ex) -> list of (category, detail)
    -> dict(states, transitions, outcomes Counter, violations [..], exhaustive bool)"""
    R = runner or Runner(spec, builder, observe=observe, bystander=bystander)
    model = R.model
    res = {'states': 0, 'transitions': 0, 'outcomes': collections.Counter(), 'violations': [],
           'exhaustive': True, 'max_depth': 0}
    # initial step (from the empty, not yet initialised interpreter)
    it = R.new_interpreter()
    probes.reset()
    ex = Exec()
    ex.hist, ex.op = None, ('INIT',)
    ex.conf_before, ex.snaps_before = frozenset(), {}
    ex.ctx_before = _plain_ctx(it.context)
    try:
        ex.step = guarded_execute_once(it)
        ex.outcome, ex.exc = 'step', None
    except Exception as e:
        ex.step, ex.outcome, ex.exc = None, 'crash:' + type(e).__name__, e
    ex.log, ex.gseen = list(probes.LOG), list(probes.GSEEN)
    ex.leftovers = []
    if ex.exc is None:
        while len(ex.leftovers) < 64:
            d = guarded_execute_once(it)
            if d is None:
                break
            ex.leftovers.append(d)
    ex.log_after_drain = list(probes.LOG)
    ex.mutated = []
    ex.conf_after, ex.final_after, ex.it, ex.drain = frozenset(it.configuration), it.final, it, None
    ex.ctx_after = _plain_ctx(it.context)
    res['transitions'] += 1
    _judge(R, ex, oracles, res)
    if on_exec:
        on_exec(R, ex)
    if ex.exc is not None:
        return res
    snaps0 = model.observe_snaps(frozenset(), {}, ex.step.steps)
    seen = {(ex.conf_after, canon_snaps(snaps0)): ()}
    frontier = collections.deque([((), ex.conf_after, snaps0)])
    while frontier:
        hist, conf, snaps = frontier.popleft()
        res['max_depth'] = max(res['max_depth'], len(hist))
        for op in R.ops_for(conf, k, extra_ops):
            ex = R.execute(hist, op, conf, snaps)
            res['transitions'] += 1
            res['outcomes'][ex.outcome] += 1
            _judge(R, ex, oracles, res)
            if on_exec:
                on_exec(R, ex)
            if ex.step is not None:
                nsnaps = model.observe_snaps(conf, snaps, ex.step.steps)
            else:
                nsnaps = snaps
            key = (ex.conf_after, canon_snaps(nsnaps))
            if key not in seen:
                if len(seen) >= max_states:
                    res['exhaustive'] = False
                    continue
                seen[key] = hist + (op,)
                if ex.exc is None:
                    frontier.append((hist + (op,), ex.conf_after, nsnaps))
    res['states'] = len(seen)
    return res


def oracle_crash(R, ex):
    """any exception other than the two documented execution errors escaping execute_once on a
    well-formed chart is a violation of whatever property is being checked"""
    if ex.outcome.startswith('crash:'):
        return [('crash', '%s escaped execute_once: %s' % (ex.outcome[6:], str(ex.exc)[:100]))]
    if ex.drain and ex.drain[0] == 'crash':
        return [('crash', '%s escaped the execute_once following a reported error' % ex.drain[1])]
    # guard against latent divergence (DESIGN.md §3.4): the public view must be the interpreter's own state
    priv = getattr(ex.it, '_configuration', None)
    if isinstance(priv, (set, frozenset, list)) and set(priv) != set(ex.conf_after):
        return [('crash', 'Interpreter.configuration shows %s but the interpreter works on %s'
                 % (sorted(ex.conf_after), sorted(priv)))]
    return []


def _judge(R, ex, oracles, res):
    for orc in list(oracles) + [oracle_crash]:
        for cat, detail in orc(R, ex):
            if len(res['violations']) < 40:
                res['violations'].append({
                    'category': cat, 'detail': detail,
                    'hist': [list(map(_j, o)) for o in (ex.hist or ())] if ex.hist is not None else None,
                    'op': list(map(_j, ex.op)),
                    'conf_before': sorted(ex.conf_before), 'conf_after': sorted(ex.conf_after),
                    'outcome': ex.outcome,
                    'fired': [R.model.trans[i] for i in ex.op[1]] if ex.op[0] == 'E' else [],
                })
            res.setdefault('nviol', 0)
            res['nviol'] = res.get('nviol', 0) + 1


def _j(x):
    return list(x) if isinstance(x, tuple) else x


# =========================================================================== oracles
def oracle_legal(R, ex):
    """C02: legality, stability, final stays final"""
    out = []
    if ex.exc is not None and ex.drain is None:
        return out
    m = R.model
    conf = ex.conf_after
    if not conf:
        if not ex.final_after:
            out.append(('legal', 'configuration empty but final is False'))
    else:
        if ex.final_after:
            out.append(('legal', 'final is True with a non-empty configuration'))
        ok, why = m.legal(conf)
        if not ok:
            out.append(('legal', why))
        else:
            comp = m.complete(conf, ex.snaps_before)
            if comp != set(conf):
                out.append(('stable', 'not stable: default completion would add %s'
                            % sorted(set(comp) - set(conf))))
    if not ex.conf_before and ex.op[0] != 'INIT':
        if conf or not ex.final_after:
            out.append(('final', 'left the final configuration: %s' % sorted(conf)))
    return out


def expected_fired(R, ex):
    """fired set predicted by the reference selection for ops 'E' (pending event = R.event)"""
    m = R.model
    if ex.op[0] == 'E':
        return m.select(ex.conf_before, R.event, set(ex.op[1]))
    if ex.op[0] == 'U':
        return m.select(ex.conf_before, 'zz_unhandled', set())
    return m.select(ex.conf_before, None, set())


def oracle_trace(R, ex):
    """C03 (a)(b)(c): the probe log is exactly what the MacroStep says, the micro steps applied in
    order give the configuration, sent events are the ones the fragments sent."""
    out = [('trace', m) for m in getattr(ex, 'mutated', [])[:2]]
    if ex.step is None:
        if ex.exc is None and ex.log:
            out.append(('trace', 'code ran but execute_once returned None: %r' % (ex.log,)))
        return out
    T = R.T
    # the summary properties of the MacroStep are the concatenation of what its micro steps say
    st = ex.step
    agg = ([x for ms in st.steps for x in ms.entered_states], [x for ms in st.steps for x in ms.exited_states],
           [id(ms.transition) for ms in st.steps if ms.transition is not None],
           [id(e) for ms in st.steps for e in ms.sent_events],
           next((id(ms.event) for ms in st.steps if ms.event is not None), None))
    got = (list(st.entered_states), list(st.exited_states), [id(t) for t in st.transitions],
           [id(e) for e in st.sent_events], id(st.event) if st.event is not None else None)
    if agg != got:
        i = next(k for k in range(5) if agg[k] != got[k])
        out.append(('trace', 'MacroStep.%s does not summarise its micro steps: %r'
                    % (('entered_states', 'exited_states', 'transitions', 'sent_events', 'event')[i],
                       (st.entered_states, st.exited_states, st.transitions, st.sent_events, st.event)[i])))
    exp = []
    for ms in ex.step.steps:
        exp += [('ex', x) for x in ms.exited_states]
        if ms.transition is not None:
            exp.append(('ac', R.tid(ms.transition)))
        exp += [('en', x) for x in ms.entered_states]
    log = [e for e in ex.log if e[0] in ('ex', 'ac', 'en')]
    if exp != log:
        out.append(('trace', 'MacroStep says %r but the code ran %r' % (exp, log)))
    conf = set(ex.conf_before)
    for ms in ex.step.steps:
        for x in ms.exited_states:
            if x not in conf:
                out.append(('trace', 'exited state %s was not active' % x))
            conf.discard(x)
        for x in ms.entered_states:
            if x in conf:
                out.append(('trace', 'entered state %s was already active' % x))
            conf.add(x)
    if conf != set(ex.conf_after):
        out.append(('trace', 'micro steps give %s but configuration is %s'
                    % (sorted(conf), sorted(ex.conf_after))))
    sent_expected = [e[1] for e in ex.log if e[0] == 'send']
    got_sent = [e.name for e in ex.step.sent_events]
    if got_sent != sent_expected:
        out.append(('trace', 'sent_events %r but fragments sent %r' % (got_sent, sent_expected)))
    # every sent event is later consumed by the sender itself, once, in sending order
    consumed_later = [d.event.name for d in ex.leftovers if d.event is not None and d.event.name != R.event
                      and d.event.name != 'zz_unhandled']
    if consumed_later != sent_expected:
        out.append(('trace', 'fragments sent %r but the interpreter later consumed %r'
                    % (sent_expected, consumed_later)))
    if ex.log_after_drain != ex.log:
        out.append(('trace', 'code ran in steps that fire no transition: %r'
                    % (ex.log_after_drain[len(ex.log):],)))
    per_ms = []
    for ms in ex.step.steps:
        per_ms += [e.name for e in ms.sent_events]
    if per_ms != got_sent:
        out.append(('trace', 'per-micro-step sent events disagree with MacroStep.sent_events'))
    return out


def _split_micro(R, step):
    """group micro steps: [(main micro step, [stabilisation steps]) ...]; a leading group with
    main None holds stabilisation-only steps (initial step)"""
    groups = []
    for ms in step.steps:
        if ms.transition is not None or not groups:
            groups.append((ms, []))
        else:
            groups[-1][1].append(ms)
    return groups


def oracle_order(R, ex):
    """C03 (d): documented processing order, exit/entry constraints, atomicity; resulting
    configuration equals the reference prediction."""
    out = []
    m, T = R.model, R.T
    if ex.op[0] == 'INIT':
        if ex.step is None:
            return [('order', 'initial step did not happen')]
        exp = m.initial_conf()
        if set(ex.conf_after) != exp:
            out.append(('config', 'initial configuration %s, expected %s'
                        % (sorted(ex.conf_after), sorted(exp))))
        ent = ex.step.entered_states
        out += _entry_constraints(T, ent, set(), 'initial')
        return out
    if ex.exc is not None:
        return out
    fired, evless = expected_fired(R, ex)
    cls = m.classify(fired)
    if cls in ('nondet', 'conflict', 'either'):
        return out      # C04's subject
    if ex.step is None:
        return out      # C01's subject
    got = [R.tid(t) for t in ex.step.transitions]
    if sorted(got) != sorted(fired):
        return out      # C01's subject (selection)
    exp_order = m.order(fired)
    if got != exp_order:
        out.append(('order', 'transitions processed as %s, documented order %s'
                    % ([_tdesc(m, i) for i in got], [_tdesc(m, i) for i in exp_order])))
        return out
    conf, snaps, recs = m.predict_step(ex.conf_before, ex.snaps_before, fired)
    groups = [g for g in _split_micro(R, ex.step) if g[0].transition is not None]
    if len(groups) != len(recs):
        out.append(('order', 'micro step grouping mismatch'))
        return out
    cur = set(ex.conf_before)
    for (main, stabs), rec in zip(groups, recs):
        td = _tdesc(m, rec['tid'])
        # atomicity: previous transition was stabilised before this one starts
        if m.complete(cur, rec['snaps']) != cur and cur:
            out.append(('order', '%s started on a configuration that was not stable: %s'
                        % (td, sorted(cur))))
        exs = main.exited_states
        if set(exs) != rec['exit'] or len(exs) != len(set(exs)):
            out.append(('order', '%s exited %s, expected the set %s' % (td, exs, sorted(rec['exit']))))
        for i, x in enumerate(exs):
            later = [d for d in exs[i + 1:] if d in T.desc(x)]
            if later:
                out.append(('order', '%s: %s exited before its descendants %s' % (td, x, later)))
        out += _sibling_order(T, exs, td, 'exit')
        if main.entered_states != rec['path']:
            out.append(('order', '%s entered %s, expected target path %s'
                        % (td, main.entered_states, rec['path'])))
        cur = (cur - set(exs)) | set(main.entered_states)
        default_entered = []
        for sm in stabs:
            for i, x in enumerate(sm.exited_states):
                if T.kind(x) not in HIST and not (T.kind(x) == 'F' or x == T.root):
                    out.append(('order', '%s: stabilisation exited %s' % (td, x)))
                later = [d for d in sm.exited_states[i + 1:] if d in T.desc(x)]
                if later:       # also when the statechart terminates: the final state is left before the root
                    out.append(('order', '%s: stabilisation exited %s before its descendants %s' % (td, x, later)))
                cur.discard(x)
            default_entered += sm.entered_states
            out += _entry_constraints(T, sm.entered_states, cur, td)
            cur |= set(sm.entered_states)
        if cur != rec['completed']:
            out.append(('config', 'after %s configuration %s, expected %s'
                        % (td, sorted(cur), sorted(rec['completed']))))
            return out
    if set(ex.conf_after) != conf:
        out.append(('config', 'configuration %s, expected %s' % (sorted(ex.conf_after), sorted(conf))))
    return out


def _entry_constraints(T, entered, active, td):
    out = []
    act = set(active)
    for x in entered:
        p = T.parent(x)
        if p is not None and p not in act:
            out.append(('order', '%s: %s entered before its parent' % (td, x)))
        act.add(x)
    out += _sibling_order(T, entered, td, 'entry')
    return out


def _sibling_order(T, seq, td, what):
    out = []
    for i, a in enumerate(seq):
        for b in seq[i + 1:]:
            p = T.parent(a)
            if p is not None and p == T.parent(b) and T.kind(p) == 'O' and a > b:
                out.append(('order', '%s: orthogonal siblings %s, %s in %s order %s'
                            % (td, a, b, what, seq)))
    return out


def oracle_history(R, ex):
    """C06: history states restore exactly what was active"""
    out = []
    m, T = R.model, R.T
    if ex.step is None or ex.op[0] == 'INIT':
        return out
    fired, _ = expected_fired(R, ex)
    if m.classify(fired) in ('nondet', 'conflict', 'either'):
        return out
    got = [R.tid(t) for t in ex.step.transitions]
    if got != m.order(fired):
        return out
    conf, snaps, recs = m.predict_step(ex.conf_before, ex.snaps_before, fired)
    touched = False
    steps = ex.step.steps
    # observed snapshots evolve along the macro step
    cur = set(ex.conf_before)
    osnaps = dict(ex.snaps_before)
    for idx, ms in enumerate(steps):
        pre = set(cur)
        for x in ms.exited_states:
            if x in m.hist_parents:
                osnaps[x] = frozenset(d for d in T.desc(x) if d in pre)
            cur.discard(x)
        for h in ms.entered_states:
            cur.add(h)
        for h in ms.entered_states:
            if T.kind(h) in HIST:
                touched = True
                expected = m.restore_set(h, osnaps)
                if idx + 1 >= len(steps):
                    out.append(('history', 'history state %s entered but never resolved' % h))
                    continue
                nxt = steps[idx + 1]
                if nxt.exited_states != [h]:
                    out.append(('history', 'after entering %s the next micro step exits %s'
                                % (h, nxt.exited_states)))
                if set(nxt.entered_states) != expected or len(nxt.entered_states) != len(expected):
                    out.append(('history', '%s (%s) restored %s, expected %s (snapshot %s)'
                                % (h, T.kind(h), nxt.entered_states, sorted(expected),
                                   sorted(osnaps.get(T.parent(h)) or []))))
                act = set(cur) - {h}
                for x in nxt.entered_states:
                    if T.parent(x) not in act:
                        out.append(('history', '%s restored %s before its parent' % (h, x)))
                    act.add(x)
    if touched and set(ex.conf_after) != conf:
        out.append(('history', 'after history restoration configuration %s, expected %s'
                    % (sorted(ex.conf_after), sorted(conf))))
    out += memory_crosscheck(R, ex, osnaps)
    return out


def _tdesc(m, tid):
    tr = m.trans[tid]
    return '%s->%s' % (tr['source'], tr.get('target') or '(internal)')


def oracle_conflict(R, ex):
    """C04: non-determinism and conflicts are reported, never silently resolved"""
    out = []
    if ex.op[0] != 'E':
        if ex.exc is not None:
            out.append(('spurious', '%s raised by %s' % (ex.outcome, ex.op)))
        return out
    m = R.model
    fired, evless = expected_fired(R, ex)
    cls = m.classify(fired) if len(fired) >= 2 else 'ok'
    names = [_tdesc(m, i) for i in fired]
    err = ex.outcome if ex.exc is not None else None
    allowed = {
        'ok': {None},
        'nondet': {'NonDeterminismError'},
        'conflict': {'ConflictingTransitionsError'},
        'either': {'NonDeterminismError', 'ConflictingTransitionsError'},
        'dontcare': {None, 'ConflictingTransitionsError'},
    }[cls]
    if err not in allowed:
        if err is None:
            out.append(('silent', 'selected %s (%s) but execute_once returned %s'
                        % (names, cls, 'a step firing %s' % [_tdesc(m, R.tid(t)) for t in ex.step.transitions]
                           if ex.step is not None else 'None')))
        elif cls == 'ok':
            out.append(('spurious', '%s raised for %s which are pairwise in distinct regions and stay '
                        'inside them' % (err, names)))
        else:
            out.append(('wrongerror', '%s raised for %s, expected %s' % (err, names, sorted(allowed))))
    if ex.exc is not None:
        if set(ex.conf_after) != set(ex.conf_before) and ex.drain and ex.drain[0] != 'crash':
            out.append(('effects', 'configuration changed by a failed step: %s -> %s'
                        % (sorted(ex.conf_before), sorted(ex.conf_after))))
        code = [e for e in ex.log if e[0] in ('en', 'ex', 'ac')]
        if code:
            out.append(('effects', 'code ran although %s was raised: %r' % (err, code)))
        if ex.ctx_before != ex.ctx_after:
            out.append(('effects', 'context changed by a failed step'))
        if ex.drain != ('step', R.event, 0):
            out.append(('effects', 'after %s the event is not pending any more: next step gave %r'
                        % (err, ex.drain)))
    return out


def memory_crosscheck(R, ex, snaps):
    """guard against latent divergence (DESIGN.md §3.4): when the private history memory exists it must hold,
    for every history state whose parent was exited, exactly what the reference snapshot implies"""
    mem = getattr(ex.it, '_memory', None)
    if not isinstance(mem, dict):
        return []
    out = []
    m, T = R.model, R.T
    for parent, h in m.hist_parents.items():
        for hname in [c for c in T.children(parent) if T.kind(c) in HIST]:
            snap = snaps.get(parent)
            got = mem.get(hname)
            if snap is None:
                if got is not None:
                    out.append(('history', 'memory of %s is %s although its parent was never exited' % (hname, got)))
                continue
            want = set(snap) if T.kind(hname) == 'HD' else {c for c in T.children(parent) if c in snap}
            try:
                if got is None or set(got) != want or len(got) != len(want):
                    out.append(('history', 'memory of %s holds %s, the parent was last exited with %s active'
                                % (hname, got, sorted(want))))
            except TypeError:
                pass
    return out
