"""Shared driver for the checks that explore scheme-S charts over all skeletons (C02, C03, C06)."""
import re
import time

from . import harness, engine
from .chartgen import skeletons, flatten, add_scheme_S, has_variant, describe, reorder

ORACLES = {
    'legal': engine.oracle_legal,
    'trace': engine.oracle_trace,
    'order': engine.oracle_order,
    'history': engine.oracle_history,
}


def make_spec(task):
    tree, scheme, ivar, k, decl, send = task[:6]
    spec = add_scheme_S(flatten(tree, scheme, ivar), send_subset=send)
    if decl == 'rev':
        spec = reorder(spec, child_perm=lambda n, kids: kids[::-1], trans_order='reversed')
    return spec


def work(task):
    tree, scheme, ivar, k, decl, send, oracle_names = task
    spec = make_spec(task)
    res = engine.explore(spec, k, [ORACLES[o] for o in oracle_names],
                         builder=decl if decl in ('rebuilt', 'moved') else 'api', observe=decl == 'observed', bystander=decl == 'bystander')
    res['desc'] = describe(spec)
    res['task'] = task
    return res


def tasks_for(plan, history=True, final=True, require=None, schemes=('asc', 'desc'),
              decls=('given',), send=False, oracle_names=()):
    """plan: list of (nmin, nmax, k)"""
    out = []
    for nmin, nmax, k in plan:
        for tree in skeletons(nmin, nmax, history=history, final=final,
                              require=require if require != 'hd+o' else None,
                              max_hist=2 if require == 'multihist' else 1):
            if require == 'hd+o' and not ("'HD'" in repr(tree) and "'O'" in repr(tree)):
                continue
            for scheme in schemes:
                for ivar in ((0, 1) if has_variant(tree) else (0,)):
                    for decl in decls:
                        out.append((tree, scheme, ivar, k, decl, send, tuple(oracle_names)))
    return out


def norm(s):
    return re.sub(r'n\d{3}', 'N', re.sub(r'\[[^\]]*\]', '[..]', str(s)))[:120]


def run(pid, tier, seed, plan, oracle_names, categories, rule, assumptions, extra_plans=(), **kw):
    t0 = time.time()
    tasks = tasks_for(plan, oracle_names=oracle_names, **kw)
    for eplan, ekw in extra_plans:
        tasks += tasks_for(eplan, oracle_names=oracle_names, **dict(kw, **ekw))
    # largest first for load balance
    order = sorted(range(len(tasks)), key=lambda i: -len(repr(tasks[i][0])))
    results = harness.pmap(work, [tasks[i] for i in order], chunksize=4)
    agg = harness.Agg()
    viol = []
    for res in sorted(results, key=lambda r: len(r['desc'])):
        agg.add(res, program=res['desc'])
        for v in res['violations']:
            if v['category'] not in categories and v['category'] != 'crash':
                continue
            sig = '%s:%s:%s' % (pid, v['category'], norm(v['detail']))
            msg = '%s %s in %s after %s op %s: %s' % (pid, v['category'], res['desc'], v['hist'],
                                                      v['op'], v['detail'])
            viol.append(harness.Violation(sig, msg, {
                'check': pid, 'task': _jsonable(res['task']), 'hist': v['hist'], 'op': v['op'],
                'category': v['category'], 'detail': v['detail'], 'desc': res['desc']}))
    samples = []
    for res in harness.pick_samples(results, seed, 3):
        samples.append({'chart': res['desc'], 'states': res['states'],
                        'transitions': res['transitions'], 'outcomes': dict(res['outcomes'])})
    coverage = {
        'programs': agg.programs, 'states': agg.states, 'transitions': agg.transitions,
        'traces_validated_against_impl': agg.transitions,
        'exhaustive': agg.exhaustive, 'max_depth': agg.max_depth,
        'bounds': [{'states_min': a, 'states_max': b, 'k': k} for a, b, k in plan],
        'outcomes': dict(agg.outcomes), 'rule': rule, 'samples': samples,
        'oracles': list(oracle_names),
    }
    return harness.finish(pid, tier, seed, 'model_checking', coverage, viol, assumptions, t0)


def _jsonable(x):
    if isinstance(x, tuple):
        return [_jsonable(y) for y in x]
    return x


def _tupled(x):
    if isinstance(x, list):
        return tuple(_tupled(y) for y in x)
    return x


def replay(data):
    """re-execute one stored (chart, history, op) without the explorer and print what happens"""
    from . import probes
    task = _tupled(data['task'])
    spec = make_spec(task)
    R = engine.Runner(spec, task[4] if task[4] in ('rebuilt', 'moved') else 'api', observe=task[4] == 'observed', bystander=task[4] == 'bystander')
    hist = tuple(_tupled(o) for o in (data['hist'] or []))
    print('chart    :', describe(spec))
    for t in spec['transitions']:
        pass
    it = R.new_interpreter()
    probes.reset()
    st = it.execute_once()
    print('init     :', st, '->', it.configuration)
    ops = list(hist)
    if data['op'][0] != 'INIT':
        ops.append(_tupled(data['op']))
    for op in ops:
        probes.reset()
        if op[0] == 'E':
            print('op       : event e with guards true for',
                  [engine._tdesc(R.model, i) for i in op[1]])
        else:
            print('op       :', op)
        outcome, step, exc = R.apply(it, op)
        print('  outcome:', outcome, step if step is not None else (exc or ''))
        print('  code   :', probes.LOG)
        print('  config :', it.configuration)
    print('recorded :', data['category'], '-', data['detail'])
    res = []
    for o in ORACLES.values():
        pass
    return 0
