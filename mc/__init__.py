"""Shared model-checking machinery for the sismic verification (see /verif/DESIGN.md §3).

Importing this package makes sure `import sismic` resolves to the tree under test:
$SISMIC_SRC if set (used by the mutation harness), else /repo (the editable install).
"""
import os
import sys

sys.dont_write_bytecode = True
SISMIC_SRC = os.environ.get('SISMIC_SRC', '/repo')
if sys.path[0] != SISMIC_SRC:
    sys.path.insert(0, SISMIC_SRC)
VERIF_DIR = os.path.dirname(os.path.dirname(os.path.abspath(__file__)))
if VERIF_DIR not in sys.path:
    sys.path.insert(1, VERIF_DIR)
