"""Shared model-checking machinery for the sismic verification (see /verif/DESIGN.md §3).

Importing this package makes sure `import sismic` resolves to the tree under test:
$SISMIC_SRC if set (used by the mutation harness), else /repo (the editable install).
"""
import os
import sys

sys.dont_write_bytecode = True
SISMIC_SRC = os.environ.get('SISMIC_SRC', '/repo')
if sys.path[0] != SISMIC_SRC:
    sys.path.insert(0, SISMIC_SRC)
VERIF_DIR = os.path.dirname(os.path.dirname(os.path.abspath(__file__)))
if VERIF_DIR not in sys.path:
    sys.path.insert(1, VERIF_DIR)


# ---------------------------------------------------------------------------------------------------------------
# Watchdog: code under test that never terminates must become a reported failure, not a check that never ends.
# Every Interpreter.execute_once call made from the main thread of a (worker) process runs under a wall-clock timer;
# on these small charts a call takes milliseconds.  (The threads of C20 are scheduled by mc/sched.py, which has its
# own horizon.)  The original function stays reachable as execute_once.__wrapped__.
HANG_S = float(os.environ.get('VERIF_HANG_S', '30'))


class HangError(BaseException):
    """not an Exception: neither the library's nor the checks' `except Exception` clauses may swallow it; it ends the
    whole check, which verify.py reports as a violation (`<ID>:aborted`)"""


def _install_watchdog():
    import functools
    import signal
    import threading
    try:
        from sismic.interpreter import Interpreter
    except Exception:       # the tree under test does not even import: the checks will say so
        return
    orig = Interpreter.execute_once
    if getattr(orig, '__wrapped__', None) is not None:
        return

    def on_alarm(signum, frame):
        raise HangError('execute_once did not return within %.0f s (the step never terminates)' % HANG_S)

    @functools.wraps(orig)
    def execute_once(self):
        if threading.current_thread() is not threading.main_thread():
            return orig(self)
        signal.signal(signal.SIGALRM, on_alarm)
        signal.setitimer(signal.ITIMER_REAL, HANG_S)
        try:
            return orig(self)
        finally:
            signal.setitimer(signal.ITIMER_REAL, 0)
    Interpreter.execute_once = execute_once


_install_watchdog()
