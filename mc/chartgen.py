"""Statechart generator: canonical skeleton enumeration, naming schemes, transition schemes,
builders (API / YAML).  A chart is described by a neutral *spec* (plain dict, JSON-able):

  spec = {'name': str, 'preamble': str|None, 'description': str|None,
          'states': [ {name, kind, parent, initial?, memory?, on_entry?, on_exit?,
                       pre?, post?, inv?} ... ]      # declaration order, parents first
          'transitions': [ {source, target, event, guard, action, priority, pre?, post?, inv?} ]}

kinds: 'B' basic, 'C' compound, 'O' orthogonal, 'F' final, 'HS' shallow history, 'HD' deep history.
Nothing in the enumeration part imports sismic; only the builders do.
"""
import itertools
from functools import lru_cache

HIST = ('HS', 'HD')
TRANSITION_KINDS = ('B', 'C', 'O')


# --------------------------------------------------------------------------- skeletons
def partitions(n, maxp=None):
    maxp = maxp or n
    if n == 0:
        yield ()
        return
    for k in range(min(n, maxp), 0, -1):
        for rest in partitions(n - k, k):
            yield (k,) + rest


@lru_cache(None)
def trees(n, in_compound, history=True, final=True, max_hist=1):
    """Canonical unordered rooted trees with kind labels obeying DESIGN.md §2 (WF2-WF5)."""
    res = []
    if n == 1:
        res.append(('B', ()))
        if in_compound:
            if final:
                res.append(('F', ()))
            if history:
                res += [('HS', ()), ('HD', ())]
        return tuple(res)
    for kind in ('C', 'O'):
        for parts in partitions(n - 1):
            if kind == 'O' and len(parts) < 2:
                continue
            seen = set()
            for combo in itertools.product(*[trees(p, kind == 'C', history, final, max_hist) for p in parts]):
                c = tuple(sorted(combo))
                if c in seen:
                    continue
                seen.add(c)
                if kind == 'C':
                    nonh = [x for x in c if x[0] not in HIST]
                    if not nonh:
                        continue
                    # initial must be a non-history child; at least one non-final sibling keeps charts alive
                    if sum(1 for x in c if x[0] in HIST) > max_hist:
                        continue
                res.append((kind, c))
    return tuple(res)


def skeletons(nmin, nmax, history=True, final=True, require=None, max_hist=1):
    """All skeletons (root compound or orthogonal) with nmin..nmax states.
    require: None | 'history' (contains a history state)"""
    out = []
    for n in range(nmin, nmax + 1):
        for t in trees(n, False, history, final, max_hist):
            if t[0] not in ('C', 'O'):
                continue
            r = repr(t)
            if require == 'history' and "'HS'" not in r and "'HD'" not in r:
                continue
            if require == 'multihist' and not _has_multi_hist(t):
                continue
            if require == 'nested-orth' and not has_nested_orth(t):
                continue
            if require == 'deep-history' and not (tree_depth(t) >= 5 and ("'HS'" in r or "'HD'" in r)):
                continue
            if require == 'hd-under-orth' and not has_hd_under_orth(t):
                continue
            if require == 'wrapped-orth' and not has_wrapped_orth(t):
                continue
            out.append(t)
    return out


def has_nested_orth(t, under=False):
    """an orthogonal state somewhere below another orthogonal state"""
    if t[0] == 'O' and under:
        return True
    return any(has_nested_orth(c, under or t[0] == 'O') for c in t[1])


def has_wrapped_orth(t):
    """orthogonal root; one region is a compound state holding an orthogonal state next to a basic state (a
    transition can leave the inner orthogonal state and stay in the region); another region is at least as
    deep, so that a source in it sorts between two sources of the inner orthogonal state"""
    if t[0] != 'O':
        return False
    for i, r in enumerate(t[1]):
        if r[0] == 'C' and any(c[0] == 'O' for c in r[1]) and any(c[0] == 'B' for c in r[1]):
            if any(tree_depth(o) >= 3 for j, o in enumerate(t[1]) if j != i):
                return True
    return False


def has_hd_under_orth(t, under=False):
    """a deep history state somewhere below an orthogonal state"""
    if t[0] == 'HD' and under:
        return True
    return any(has_hd_under_orth(c, under or t[0] == 'O') for c in t[1])


def tree_depth(t):
    return 1 + max([tree_depth(c) for c in t[1]], default=0)


def _has_multi_hist(t):
    if t[0] == 'C' and sum(1 for c in t[1] if c[0] in HIST) > 1:
        return True
    return any(_has_multi_hist(c) for c in t[1])


# --------------------------------------------------------------------------- tree queries
class Tree:
    """Plain tree queries over a spec (independent of sismic)."""

    def __init__(self, spec):
        self.spec = spec
        self.st = {s['name']: s for s in spec['states']}
        self.order = [s['name'] for s in spec['states']]
        self.root = next(s['name'] for s in spec['states'] if s['parent'] is None)
        self._children = {n: [] for n in self.st}
        for s in spec['states']:
            if s['parent'] is not None:
                self._children[s['parent']].append(s['name'])
        self._anc = {}
        self._desc = {}
        for n in self.st:
            a = []
            p = self.st[n]['parent']
            while p is not None:
                a.append(p)
                p = self.st[p]['parent']
            self._anc[n] = a
        for n in self.st:
            self._desc[n] = self._compute_desc(n)

    def _compute_desc(self, n):
        r = []
        for c in self._children[n]:
            r.append(c)
            r += self._compute_desc(c)
        return r

    def kind(self, n): return self.st[n]['kind']
    def parent(self, n): return self.st[n]['parent']
    def children(self, n): return self._children[n]
    def anc(self, n): return self._anc[n]          # nearest first
    def desc(self, n): return self._desc[n]
    def depth(self, n): return len(self._anc[n]) + 1
    def initial(self, n): return self.st[n].get('initial')
    def memory(self, n): return self.st[n].get('memory')

    def lca_proper(self, a, b):
        """deepest state that is a proper ancestor of both a and b (None above the root)"""
        bb = self._anc[b]
        for x in self._anc[a]:
            if x in bb:
                return x
        return None

    def child_towards(self, anc, n):
        """the child of `anc` (or the root if anc is None) that is n or an ancestor of n"""
        chain = [n] + self._anc[n]
        if anc is None:
            return chain[-1]
        i = chain.index(anc)
        return chain[i - 1] if i > 0 else None

    def region_of(self, orth, n):
        return self.child_towards(orth, n)


def wf_pair(T, s, t):
    """is a transition s -> t (t None = internal) well-formed per §2 (WF5-WF7)?"""
    if T.kind(s) not in TRANSITION_KINDS:
        return False
    if t is None:
        return True
    sa = [s] + T.anc(s)
    ta = [t] + T.anc(t)
    for o in sa:
        if o in ta and T.kind(o) == 'O':
            cs = [x for x in sa if T.parent(x) == o]
            ct = [x for x in ta if T.parent(x) == o]
            if cs and ct and cs[0] != ct[0]:
                return False
    if T.kind(t) in HIST:
        p = T.parent(t)
        if s == p or s in T.desc(p):
            return False
    return True


# --------------------------------------------------------------------------- naming / flatten
OVERLAP = ['q', 'qr', 'r', 'rs', 's', 'st', 't', 'tu', 'u', 'uv', 'v', 'vw']


def name_for(i, scheme):
    """fixed-width names with gaps of 10 so order-preserving fresh names exist (C17); scheme 'overlap': short
    names that are made of each other's characters (a name is a name, not a bag of letters), in ascending order"""
    if scheme == 'overlap':
        return OVERLAP[i]
    return 'n%03d' % ((i + 1) * 10 if scheme == 'asc' else 990 - i * 10)


def flatten(tree, scheme='asc', ivar=0, probes=True, name='t'):
    """skeleton -> spec without transitions.  ivar selects initial/memory choices:
    0: initial = first non-history child, memory = last; 1: initial = last, memory = first."""
    states = []
    counter = [0]

    def rec(t, parent):
        i = counter[0]
        counter[0] += 1
        n = name_for(i, scheme)
        s = {'name': n, 'kind': t[0], 'parent': parent}
        states.append(s)
        kids = [rec(c, n) for c in t[1]]
        if t[0] == 'C':
            nonh = [k for k, c in zip(kids, t[1]) if c[0] not in HIST]
            s['initial'] = nonh[0] if ivar == 0 else nonh[-1]
            for k, c in zip(kids, t[1]):
                if c[0] in HIST:
                    by = {x['name']: x for x in states}
                    by[k]['memory'] = nonh[-1] if ivar == 0 else nonh[0]
        return n

    rec(tree, None)
    if probes:
        for s in states:
            s['on_entry'] = "P('en', %r)" % s['name']
            s['on_exit'] = "P('ex', %r)" % s['name']
    return {'name': name, 'preamble': None, 'description': None, 'states': states, 'transitions': []}


def has_variant(tree):
    """does ivar=1 differ from ivar=0 for this skeleton?"""
    def rec(t):
        if t[0] == 'C':
            nonh = [c for c in t[1] if c[0] not in HIST]
            if len(nonh) > 1:
                return True
        return any(rec(c) for c in t[1])
    return rec(tree)


# --------------------------------------------------------------------------- transition schemes
def add_scheme_S(spec, event='e', send_subset=False, eventless_twin=False, counter=False,
                 internal_twin=False):
    """saturated: one transition per WF (source, target|internal) pair, guard G(tid, event)."""
    T = Tree(spec)
    trans = spec['transitions']
    for s in T.order:
        for t in T.order + [None]:
            if wf_pair(T, s, t):
                tid = len(trans)
                act = "P('ac', %d)" % tid
                if send_subset and tid % 3 == 0:
                    act += "; P('send', 'i%d'); send('i%d', v=%d)" % (tid, tid, tid)
                trans.append({'source': s, 'target': t, 'event': event, 'guard': 'G(%d, event)' % tid,
                              'action': act, 'priority': 0, 'tid': tid})
    if internal_twin:
        # a second internal transition per state on the same event (two internal transitions of one state)
        for st in T.order:
            if T.kind(st) in TRANSITION_KINDS:
                tid = len(trans)
                trans.append({'source': st, 'target': None, 'event': event, 'guard': 'G(%d, event)' % tid,
                              'action': "P('ac', %d)" % tid, 'priority': 0, 'tid': tid})
    if send_subset:
        for i, st in enumerate(spec['states']):
            key = 'on_entry' if i % 2 == 0 else 'on_exit'
            if st.get(key):
                st[key] += "; P('send', '%s_%s'); send('%s_%s')" % (key[3:5], st['name'], key[3:5], st['name'])
    if counter:
        spec['preamble'] = 'n = 0'
        for tr in trans:
            tr['action'] += '; n = n + 1'
        for s in spec['states']:
            if s.get('on_entry'):
                s['on_entry'] += '; n = n + 1'
    if eventless_twin:
        for tr in list(trans):
            tid = len(trans)
            trans.append({'source': tr['source'], 'target': tr['target'], 'event': None,
                          'guard': 'G(%d, event)' % tid, 'action': "P('ac', %d)" % tid, 'priority': 0,
                          'tid': tid})
    return spec


def add_scheme_P(spec, prios=(0, 1), events=(None, 'e', 'f'), skip=None):
    """probe scheme: internal transitions per (state, event class, priority) + navigation.
    skip = 0 | 1: states whose pre-order index has that parity carry no probe at all (chains in which an
    intermediate state has no transition for the trigger)"""
    T = Tree(spec)
    trans = spec['transitions']
    for idx, s in enumerate(T.order):
        if T.kind(s) not in TRANSITION_KINDS:
            continue
        if skip is not None and idx % 2 == skip:
            continue
        for ev in events:
            for pr in prios:
                tid = len(trans)
                trans.append({'source': s, 'target': None, 'event': ev, 'guard': 'G(%d, event)' % tid,
                              'action': "P('ac', %d)" % tid, 'priority': pr, 'tid': tid})
    navs = []
    for c in T.order:
        if T.kind(c) == 'C':
            for x in T.children(c):
                if T.kind(x) in HIST:
                    continue
                ev = 'nav:%s:%s' % (c, x)
                tid = len(trans)
                trans.append({'source': c, 'target': x, 'event': ev, 'guard': None, 'action': None,
                              'priority': 0, 'tid': tid, 'nav': True})
                navs.append(ev)
    return spec, navs


# --------------------------------------------------------------------------- declaration variants
def reorder(spec, child_perm=None, trans_order='given'):
    """return a spec with the same structure but another declaration order.
    child_perm: function(list_of_children_names) -> permuted list, applied at every composite."""
    T = Tree(spec)
    out = []

    def rec(n):
        out.append(dict(T.st[n]))
        kids = list(T.children(n))
        if child_perm:
            kids = child_perm(n, kids)
        for c in kids:
            rec(c)
    rec(T.root)
    tr = [dict(t) for t in spec['transitions']]
    if trans_order == 'reversed':
        tr = tr[::-1]
    elif trans_order == 'rotated':
        tr = tr[1:] + tr[:1]
    new = dict(spec)
    new['states'] = out
    new['transitions'] = tr
    return new


# --------------------------------------------------------------------------- builders (use sismic)
def build_api(spec):
    from sismic.model import (BasicState, CompoundState, OrthogonalState, FinalState,
                              ShallowHistoryState, DeepHistoryState, Statechart, Transition)
    sc = Statechart(spec.get('name', 't'), description=spec.get('description'),
                    preamble=spec.get('preamble'))
    for s in spec['states']:
        k = s['kind']
        kw = dict(on_entry=s.get('on_entry'), on_exit=s.get('on_exit'))
        if k == 'B':
            o = BasicState(s['name'], **kw)
        elif k == 'F':
            o = FinalState(s['name'], **kw)
        elif k == 'O':
            o = OrthogonalState(s['name'], **kw)
        elif k == 'C':
            o = CompoundState(s['name'], initial=s.get('initial'), **kw)
        elif k == 'HS':
            o = ShallowHistoryState(s['name'], memory=s.get('memory'), **kw)
        else:
            o = DeepHistoryState(s['name'], memory=s.get('memory'), **kw)
        o.preconditions.extend(s.get('pre', []))
        o.postconditions.extend(s.get('post', []))
        o.invariants.extend(s.get('inv', []))
        sc.add_state(o, s['parent'])
    objs = []
    for t in spec['transitions']:
        o = Transition(t['source'], t.get('target'), event=t.get('event'), guard=t.get('guard'),
                       action=t.get('action'), priority=t.get('priority', 0))
        o.preconditions.extend(t.get('pre', []))
        o.postconditions.extend(t.get('post', []))
        o.invariants.extend(t.get('inv', []))
        sc.add_transition(o)
        objs.append(o)
    return sc, objs


def build_api_rebuilt(spec):
    """the same statechart, reached through an editing history: every state is first added as a
    placeholder directly under the root, every query is exercised, the placeholders are removed and the
    real states are added under their real parents (names are re-used under other parents)"""
    from sismic.model import BasicState, CompoundState, OrthogonalState, Statechart
    T = Tree(spec)
    pre = Statechart('placeholder')
    rootspec = T.st[T.root]
    pre.add_state(CompoundState(T.root) if rootspec['kind'] == 'C' else OrthogonalState(T.root), None)
    for n in T.order[::-1]:
        if n != T.root:
            pre.add_state(BasicState(n), T.root)
    sc, objs = build_api(spec)
    # graft: do the same on the real object so that any per-name cache filled now would be stale later
    real = Statechart(spec.get('name', 't'), description=spec.get('description'), preamble=spec.get('preamble'))
    real.add_state(sc.state_for(T.root), None)
    for n in T.order[::-1]:
        if n != T.root:
            real.add_state(BasicState(n), T.root)
    names = list(real.states)
    for n in names:
        real.ancestors_for(n), real.descendants_for(n), real.depth_for(n), real.children_for(n), real.parent_for(n)
        for m in names:
            real.least_common_ancestor(n, m)
    real.leaf_for(names)
    for n in list(real.children_for(T.root)):
        real.remove_state(n)
    for s in spec['states']:
        if s['name'] != T.root:
            real.add_state(sc.state_for(s['name']), s['parent'])
    # remove_state reset the initial of the root (it pointed to a removed placeholder name)
    if rootspec['kind'] == 'C':
        real.state_for(T.root).initial = rootspec.get('initial')
    for o in objs:
        real.add_transition(o)
    return real, objs


def build_api_moved(spec):
    """the same statechart, reached through move_state: every composite state that is not a child of the
    root is first added directly under the root (with its whole subtree) and moved to its real parent at
    the end; initial / memory values that move_state resets are restored afterwards"""
    T = Tree(spec)
    sc, objs = build_api(spec)          # objects (states, transitions) to re-use
    from sismic.model import Statechart
    real = Statechart(spec.get('name', 't'), description=spec.get('description'), preamble=spec.get('preamble'))
    to_move = [n for n in T.order if n != T.root and T.kind(n) in ('C', 'O') and T.parent(n) != T.root]
    for s in spec['states']:
        n = s['name']
        real.add_state(sc.state_for(n), T.root if n in to_move else s['parent'])
    for n in real.states:
        real.depth_for(n), real.ancestors_for(n), real.descendants_for(n)
    for n in to_move[::-1]:             # deepest first or not: any order gives the same final tree
        real.move_state(n, T.parent(n))
    for s in spec['states']:            # move_state resets initial / memory pointing to a moved state
        o = real.state_for(s['name'])
        if s.get('initial') is not None:
            o.initial = s['initial']
        if s.get('memory') is not None:
            o.memory = s['memory']
    for o in objs:
        real.add_transition(o)
    real.validate()
    return real, objs


def to_doc(spec):
    """nested YAML document (python dict) in declaration order; independent of sismic's exporter"""
    T = Tree(spec)
    by_src = {}
    for t in spec['transitions']:
        by_src.setdefault(t['source'], []).append(t)

    def contract(o):
        c = [{'before': x} for x in o.get('pre', [])] + [{'after': x} for x in o.get('post', [])] + \
            [{'always': x} for x in o.get('inv', [])]
        return c

    def rec(n):
        s = T.st[n]
        d = {'name': n}
        k = s['kind']
        if k == 'F':
            d['type'] = 'final'
        elif k == 'HS':
            d['type'] = 'shallow history'
        elif k == 'HD':
            d['type'] = 'deep history'
        if s.get('memory'):
            d['memory'] = s['memory']
        if s.get('initial'):
            d['initial'] = s['initial']
        if s.get('on_entry'):
            d['on entry'] = s['on_entry']
        if s.get('on_exit'):
            d['on exit'] = s['on_exit']
        if contract(s):
            d['contract'] = contract(s)
        trs = []
        for t in by_src.get(n, []):
            td = {}
            for key in ('target', 'event', 'guard', 'action'):
                if t.get(key) is not None:
                    td[key] = t[key]
            pr = t.get('priority', 0)
            if pr:
                td['priority'] = {1: 'high', -1: 'low'}.get(pr, pr)
            if contract(t):
                td['contract'] = contract(t)
            trs.append(td)
        if trs:
            d['transitions'] = trs
        kids = [rec(c) for c in T.children(n)]
        if k == 'C':
            d['states'] = kids
        elif k == 'O':
            d['parallel states'] = kids
        return d
    sd = {'name': spec.get('name', 't')}
    if spec.get('description'):
        sd['description'] = spec['description']
    if spec.get('preamble'):
        sd['preamble'] = spec['preamble']
    sd['root state'] = rec(T.root)
    return {'statechart': sd}


def to_yaml(spec):
    import io
    import ruamel.yaml as yaml
    out = io.StringIO()
    y = yaml.YAML(typ='safe', pure=True)
    y.default_flow_style = False
    y.dump(to_doc(spec), out)
    return out.getvalue()


def build_yaml(spec):
    from sismic.io import import_from_yaml
    sc = import_from_yaml(to_yaml(spec))
    # map spec transitions to objects by guard text / (source,target,event)
    objs = []
    pool = list(sc.transitions)
    for t in spec['transitions']:
        for o in pool:
            if (o.source, o.target, o.event, o.guard, o.priority) == (
                    t['source'], t.get('target'), t.get('event'), t.get('guard'), t.get('priority', 0)):
                objs.append(o)
                pool.remove(o)
                break
        else:
            raise AssertionError('transition lost by YAML build: %r' % (t,))
    return sc, objs


def describe(spec):
    """short human-readable rendering of a spec's structure"""
    T = Tree(spec)

    def rec(n):
        k = T.kind(n)
        extra = ''
        if k == 'C':
            extra = '^' + str(T.initial(n))
        if k in HIST:
            extra = '~' + str(T.memory(n))
        kids = T.children(n)
        return '%s:%s%s' % (n, k, extra) + ('{' + ','.join(rec(c) for c in kids) + '}' if kids else '')
    return rec(T.root)
