import sys; sys.path.insert(0,'/repo')
from sismic.io import import_from_yaml, export_to_yaml
from sismic.exceptions import StatechartError
docs = {
'root history': "statechart:\n  name: t\n  root state:\n    name: r\n    type: shallow history\n",
'root final': "statechart:\n  name: t\n  root state:\n    name: r\n    type: final\n",
'final with children': "statechart:\n  name: t\n  root state:\n    name: r\n    initial: f\n    states:\n    - name: f\n      type: final\n      states:\n      - name: x\n",
'basic with initial': "statechart:\n  name: t\n  root state:\n    name: r\n    initial: zzz\n",
'history with transitions': "statechart:\n  name: t\n  root state:\n    name: r\n    initial: a\n    states:\n    - name: a\n    - name: h\n      type: shallow history\n      transitions:\n      - target: a\n",
'final with transitions': "statechart:\n  name: t\n  root state:\n    name: r\n    initial: a\n    states:\n    - name: a\n    - name: f\n      type: final\n      transitions:\n      - target: a\n",
'priority medium': "statechart:\n  name: t\n  root state:\n    name: r\n    transitions:\n    - event: e\n      priority: medium\n",
'priority 1.5': "statechart:\n  name: t\n  root state:\n    name: r\n    transitions:\n    - event: e\n      priority: 1.5\n",
'dup names': "statechart:\n  name: t\n  root state:\n    name: r\n    initial: a\n    states:\n    - name: a\n    - name: a\n",
'dup name root': "statechart:\n  name: t\n  root state:\n    name: r\n    initial: a\n    states:\n    - name: a\n      states:\n      - name: r\n",
'memory self': "statechart:\n  name: t\n  root state:\n    name: r\n    initial: a\n    states:\n    - name: a\n    - name: h\n      type: deep history\n      memory: h\n",
'memory nonsibling': "statechart:\n  name: t\n  root state:\n    name: r\n    initial: a\n    states:\n    - name: a\n      states:\n      - name: b\n    - name: h\n      type: deep history\n      memory: b\n",
'initial grandchild': "statechart:\n  name: t\n  root state:\n    name: r\n    initial: b\n    states:\n    - name: a\n      states:\n      - name: b\n",
'initial is root itself': "statechart:\n  name: t\n  root state:\n    name: r\n    initial: r\n    states:\n    - name: a\n",
'empty states list': "statechart:\n  name: t\n  root state:\n    name: r\n    states: []\n",
'name null': "statechart:\n  name: t\n  root state:\n    name: \n",
'no name': "statechart:\n  root state:\n    name: r\n",
'list doc': "- a\n- b\n",
'scalar doc': "hello\n",
'states is mapping': "statechart:\n  name: t\n  root state:\n    name: r\n    states:\n      name: a\n",
'contract unknown': "statechart:\n  name: t\n  root state:\n    name: r\n    contract:\n    - never: x\n",
'contract two keys': "statechart:\n  name: t\n  root state:\n    name: r\n    contract:\n    - before: x\n      after: y\n",
'state name int dup': "statechart:\n  name: t\n  root state:\n    name: r\n    initial: 1\n    states:\n    - name: 1\n    - name: '1'\n",
'target empty': "statechart:\n  name: t\n  root state:\n    name: r\n    transitions:\n    - target: ''\n      event: e\n",
'empty name': "statechart:\n  name: t\n  root state:\n    name: ''\n",
}
for k, d in docs.items():
    try:
        sc = import_from_yaml(d)
        print(f'{k:28s} ACCEPTED states={sc.states} trans={sc.transitions}')
    except StatechartError as e:
        print(f'{k:28s} StatechartError: {str(e)[:60]!r}')
    except Exception as e:
        print(f'{k:28s} OTHER {type(e).__name__}: {str(e)[:80]!r}')
