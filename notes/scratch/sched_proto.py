import sys; sys.path.insert(0,'/repo')
import threading, time
from sismic.model import *
from sismic.interpreter import Interpreter
import sismic.interpreter.default as D

# minimal baton scheduler: threads park at points; main picks who runs
class Sched:
    def __init__(self, schedule):
        self.schedule=list(schedule); self.cv=threading.Condition(); self.current=None
        self.threads={}; self.done=set(); self.trace=[]
        self.codes={D.Interpreter._queue_event.__code__, D.Interpreter._select_event.__code__}
    def tracer(self, frame, ev, arg):
        if frame.f_code in self.codes:
            return self.local
        return None
    def local(self, frame, ev, arg):
        if ev=='line': self.point(f'{frame.f_code.co_name}:{frame.f_lineno}')
        return self.local
    def point(self, label):
        me=threading.current_thread().name
        with self.cv:
            self.trace.append((me,label))
            # decide next: follow schedule if any, else keep current
            nxt = self.schedule.pop(0) if self.schedule else me
            if nxt in self.done: nxt=me
            self.current=nxt; self.cv.notify_all()
            while self.current!=me: self.cv.wait()
    def run(self, name, fn):
        def body():
            with self.cv:
                while self.current!=name: self.cv.wait()
            sys.settrace(self.tracer)
            try: fn()
            finally:
                sys.settrace(None)
                with self.cv:
                    self.done.add(name)
                    rest=[n for n in self.threads if n not in self.done]
                    self.current = rest[0] if rest else None; self.cv.notify_all()
        t=threading.Thread(target=body,name=name); self.threads[name]=t; return t

sc = Statechart('t')
sc.add_state(CompoundState('root', initial='a'), None); sc.add_state(BasicState('a'), 'root')
def trial(schedule):
    it = Interpreter(sc); it.execute_once()
    it.queue('a'); it.queue(Event('d', delay=5))
    s=Sched(schedule)
    consumed=[]
    def client(): it.queue('c')
    def runner():
        st=it.execute_once(); consumed.append(st.event.name if st and st.event else None)
    tc=s.run('C',client); tr=s.run('R',runner)
    tc.start(); tr.start()
    with s.cv: s.current='C'; s.cv.notify_all()
    tc.join(); tr.join()
    return consumed, [(t,e.name) for t,e in it._external_queue], s.trace
# client runs until after bisect line (position computed), then runner runs fully, then client resumes
c,q,tr = trial([])
print('no preemption:', c,q); print([x for x in tr][:12])
for k in range(1,8):
    c,q,tr = trial(['C']*k+['R']*40)
    print(k, c, q)
