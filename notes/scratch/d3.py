import sys; sys.path.insert(0,'/repo')
import json, os, tempfile, time
from sismic.model import *
from sismic.bdd import execute_bdd
sc = Statechart('t', preamble='x=1')
sc.add_state(CompoundState('root', initial='a'), None)
sc.add_state(BasicState('a'), 'root'); sc.add_state(BasicState('b'), 'root')
sc.add_transition(Transition('a','b',event='e',action='x=2'))
feat = '''Feature: f
  Scenario: s1
    When I send event e
    Then expression "x == 1" holds
    And expression x == 1 holds
    And expression "x == 2" does not hold
    And state b is entered
    And state a is entered
    And variable x equals 2
'''
d = tempfile.mkdtemp(dir='/var/tmp/scratch')
fp = os.path.join(d,'f.feature'); open(fp,'w').write(feat)
out = os.path.join(d,'out.json')
t=time.time()
rc = execute_bdd(sc, [fp], behave_parameters=['-f','json','-o',out,'--no-summary'])
print('rc', rc, time.time()-t)
for f in json.load(open(out)):
    for el in f['elements']:
        for s in el['steps']:
            print(s['keyword'], s['name'], s.get('result',{}).get('status'))
