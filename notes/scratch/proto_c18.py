"""Design-phase prototype for C18: snapshot (pickle / deepcopy) at every boundary, lock-step continuation."""
import sys, os, time, itertools, collections, pickle, copy
sys.path.insert(0, os.environ.get('SISMIC_SRC', '/repo'))
from sismic.io import import_from_yaml
from sismic.interpreter import Interpreter
from sismic.model import Event
Y = '''
statechart:
  name: c18
  preamble: |
    x = 0
    log = []
  root state:
    name: root
    initial: work
    contract:
    - always: x >= __old__.x
    states:
    - name: work
      initial: a
      contract:
      - always: x >= __old__.x
      - after: x > __old__.x or x == __old__.x
      transitions:
      - event: pause
        target: idle
      states:
      - name: a
        on entry: x += 1
        transitions:
        - event: go
          target: b
          action: send('tick', delay=2)
          contract:
          - after: x == __old__.x
        - event: inc
          action: x += 1
          contract:
          - after: x == __old__.x + 1
      - name: b
        on entry: log.append(x)
        contract:
        - always: len(log) >= len(__old__.log)
        transitions:
        - event: tick
          target: a
        - event: go
          target: c
      - name: c
        parallel states:
        - name: c1
          initial: c1a
          states:
          - name: c1a
            transitions:
            - event: go
              target: c1b
          - name: c1b
        - name: c2
          transitions:
          - event: inc
            action: x += 10
      - name: h
        type: deep history
        memory: a
    - name: idle
      transitions:
      - event: resume
        target: h
      - event: bad
        action: x -= 100
'''
sc = import_from_yaml(Y)
OPS = ['go', 'inc', 'pause', 'resume', 'bad', 'clock+2', 'step']
def apply(it, op):
    if op == 'clock+2': it.clock.time += 2; return ('clk',)
    if op != 'step': it.queue(op)
    try:
        st = it.execute_once()
        return ('ok', None if st is None else (st.event.name if st.event else None, [str(t) for t in st.transitions], st.entered_states, st.exited_states, [e.name for e in st.sent_events]),
                sorted(it.configuration), dict(it.context), it.time)
    except Exception as e:
        return ('exc', type(e).__name__, str(getattr(e, 'condition', ''))[:40])
def fresh(hist):
    it = Interpreter(sc); it.execute_once()
    for op in hist: apply(it, op)
    return it
if __name__ == '__main__':
    D = int(sys.argv[1]); C = int(sys.argv[2]); t0 = time.time(); n = 0; bad = collections.Counter(); ex = {}
    for hist in itertools.product(OPS, repeat=D):
        it = fresh(hist)
        snaps = {'pickle': pickle.loads(pickle.dumps(it)), 'deepcopy': copy.deepcopy(it)}
        twin = fresh(hist)
        for cont in itertools.product(OPS, repeat=C):
            n += 1
            # original continues on a fresh twin each time (no undo): compare restored copies vs fresh replay
            a = fresh(hist); ref = [apply(a, op) for op in cont]
            for kind, snap in snaps.items():
                b = pickle.loads(pickle.dumps(snap))  # private copy of the snapshot for this continuation
                got = [apply(b, op) for op in cont]
                if got != ref:
                    bad[kind] += 1; ex.setdefault(kind, (hist, cont, [x for x, y in zip(ref, got) if x != y][:1], [y for x, y in zip(ref, got) if x != y][:1]))
    print('continuations', n, 'mismatches', dict(bad), 'wall %.1fs' % (time.time() - t0))
    for k, v in ex.items(): print(k, v)
