import sys; sys.path.insert(0,'/repo')
import time, copy, pickle
from sismic.model import *
from sismic.interpreter import Interpreter
log=[]
def G(i, ev): 
    return VAL.get(i, False)
VAL={}
def P(x): log.append(x)
def mk(ntr):
    sc = Statechart('t')
    sc.add_state(CompoundState('root', initial='p', on_entry="P('en:root')"), None)
    sc.add_state(OrthogonalState('p', on_entry="P('en:p')", on_exit="P('ex:p')"), 'root')
    for r in 'ab':
        sc.add_state(CompoundState(r, initial=r+'1', on_entry=f"P('en:{r}')"), 'p')
        for k in '12': sc.add_state(BasicState(r+k, on_entry=f"P('en:{r}{k}')", on_exit=f"P('ex:{r}{k}')"), r)
    srcs=['root','p','a','b','a1','a2','b1','b2']
    for i in range(ntr):
        s=srcs[i%8]
        sc.add_transition(Transition(s, None, event=[None,'e','f'][i%3], guard=f'G({i}, event)', action=f"P('t{i}')", priority=i%2))
    return sc
for ntr in (24, 96):
    sc = mk(ntr)
    t=time.time(); n=2000
    for _ in range(n):
        it = Interpreter(sc, initial_context={'G':G,'P':P})
    print(ntr,'construct us', (time.time()-t)/n*1e6)
    it = Interpreter(sc, initial_context={'G':G,'P':P}); it.execute_once()
    t=time.time()
    for k in range(n):
        VAL.clear(); VAL[k%ntr]=True
        it.queue('e'); it.execute_once()
    print(ntr,'step us', (time.time()-t)/n*1e6)
    t=time.time()
    for k in range(200): it2=copy.deepcopy(it)
    print(ntr,'deepcopy us', (time.time()-t)/200*1e6)
