import sys; sys.path.insert(0,'/repo')
import json, os, tempfile
from sismic.model import *
from sismic.bdd import execute_bdd
sc = Statechart('t', preamble='x=0')
sc.add_state(CompoundState('root', initial='a'), None)
sc.add_state(BasicState('a'), 'root'); sc.add_state(BasicState('b'), 'root')
sc.add_transition(Transition('a','b',event='e',action='x+=1; send("out", k=x)'))
sc.add_transition(Transition('b','a',event='e',action='x+=1'))
feat = '''Feature: f
  Scenario: base
    When I send event e
    Then state b is entered
  Scenario: s2
    Given I reproduce "base"
    When I repeat "I send event e" 2 times
    Then variable x equals 3
  Scenario: s3
    When I send event e
    Then event out is fired with k=1
  Scenario: s4
    When I send event e
    Then event out is fired with k=2
  Scenario: s5
    When I send event e
    Then state b is entered
    When I send event e
    Then state b is entered
  Scenario: s6
    When I wait 2 seconds
    Then expression time == 2 holds
  Scenario: s7
    When I send event e with p=5
    Then no event is fired
'''
d = tempfile.mkdtemp(dir='/var/tmp/scratch')
fp = os.path.join(d,'f.feature'); open(fp,'w').write(feat)
out = os.path.join(d,'out.json')
rc = execute_bdd(sc, [fp], behave_parameters=['-f','json','-o',out,'--no-summary'])
print('rc', rc)
for f in json.load(open(out)):
    for el in f['elements']:
        print(el['name'], [(s['name'][:30], s.get('result',{}).get('status')) for s in el['steps']])
