"""Design-phase prototype: trace truth / order constraints (C03) and history oracle (C06) on family S."""
import sys, os, time, itertools, collections
from proto_s import *
import proto_s

def depth(st, n): return len(anc(st, n)) + 1

def default_completion(st, conf, snapshots):
    """reference: complete conf (set) by default entries; returns set"""
    conf = set(conf); changed = True
    while changed:
        changed = False
        for n in sorted(conf):
            s = st[n]
            if s['kind'] == 'C' and not [c for c in s['children'] if c in conf]:
                conf.add(s['initial']); changed = True
            if s['kind'] == 'O':
                for c in s['children']:
                    if c not in conf: conf.add(c); changed = True
    return conf

def check_step(st, trans, before, step, log, snapshots, conf_after):
    errs = []
    # (a) trace truth
    exp = []
    for ms in step.steps:
        exp += [('ex', x) for x in ms.exited_states]
        if ms.transition is not None:
            tid = int(ms.transition.action.split(',')[1].rstrip(')')); exp.append(('ac', tid))
        exp += [('en', x) for x in ms.entered_states]
    if exp != log: errs.append(('trace!=log', exp, log))
    # (b) config replay + constraints
    conf = set(before)
    for ms in step.steps:
        pre = set(conf)
        for x in ms.exited_states:
            if x not in conf: errs.append(('exit inactive', x))
            act_desc = [d for d in desc(st, x) if d in conf]
            if act_desc: errs.append(('exited before descendants', x, act_desc))
            conf.discard(x)
            # history snapshot (reference)
            if st[x]['kind'] == 'C' and any(st[c]['kind'] in ('HS', 'HD') for c in st[x]['children']):
                snapshots[x] = frozenset(d for d in desc(st, x) if d in pre)
        # orthogonal siblings exit in name order
        ex = ms.exited_states
        for i, a in enumerate(ex):
            for b in ex[i + 1:]:
                if st[a]['parent'] and st[a]['parent'] == st[b]['parent'] and st[st[a]['parent']]['kind'] == 'O' and a > b:
                    errs.append(('orth exit order', a, b))
        en = ms.entered_states
        for x in en:
            p = st[x]['parent']
            if p and p not in conf: errs.append(('entered before parent', x))
            if x in conf: errs.append(('entered active', x))
            conf.add(x)
        for i, a in enumerate(en):
            for b in en[i + 1:]:
                if st[a]['parent'] and st[a]['parent'] == st[b]['parent'] and st[st[a]['parent']]['kind'] == 'O' and a > b:
                    errs.append(('orth entry order', a, b))
    if conf != set(conf_after): errs.append(('config mismatch', sorted(conf), sorted(conf_after)))
    return errs

def explore3(tree, scheme, k, decl):
    st = flatten(tree, scheme)
    proto_s_build = build(st, decl); sc, trans = proto_s_build
    hist_states = [n for n, s in st.items() if s['kind'] in ('HS', 'HD')]
    def run(hist, check_last=False):
        it = Interpreter(sc, initial_context={'P': P, 'G': G})
        snapshots = {}
        LOG.clear(); before = set(); stp = it.execute_once()
        errs = check_step(st, trans, before, stp, list(LOG), snapshots, it._configuration) if not hist else []
        for j, op in enumerate(hist):
            VAL.clear(); VAL.update(op); it.queue('e'); LOG.clear(); before = set(it._configuration)
            try:
                stp = it.execute_once()
            except (NonDeterminismError, ConflictingTransitionsError):
                VAL.clear(); it.execute_once(); continue
            snap_before = dict(snapshots)
            e = check_step(st, trans, before, stp, list(LOG), snapshots, it._configuration)
            if j == len(hist) - 1:
                errs = e
                # C06 oracle: for each history state entered in this step
                for idx, ms in enumerate(stp.steps):
                    for h in ms.entered_states:
                        if st[h]['kind'] in ('HS', 'HD'):
                            p = st[h]['parent']
                            nxt = stp.steps[idx + 1]
                            # snapshot to use: if parent was exited earlier in this very macro step use the fresh one
                            snap = snapshots.get(p)
                            if snap is None: expected = {st[h]['memory']}
                            elif st[h]['kind'] == 'HS': expected = {c for c in st[p]['children'] if c in snap}
                            else: expected = set(snap)
                            if nxt.exited_states != [h] or set(nxt.entered_states) != expected:
                                errs.append(('history restore', h, sorted(expected), nxt.entered_states, nxt.exited_states))
                            # final config below p must equal completion
                            exp_conf = default_completion(st, (set(it._configuration) - set(desc(st, p))) | expected, snapshots)
                            if exp_conf != set(it._configuration): errs.append(('history config', h, sorted(exp_conf), sorted(it._configuration)))
        return it, errs
    seen = {}; frontier = collections.deque([()]); nexec = 0; viol = []
    it, errs = run(())
    if errs: viol.append(((), errs))
    key = (frozenset(it._configuration), tuple(sorted((h, tuple(sorted(m))) for h, m in it._memory.items())))
    seen[key] = ()
    while frontier:
        hist = frontier.popleft()
        it0, _ = run(hist); conf = set(it0._configuration)
        cands = [i for i, (s, t) in enumerate(trans) if s in conf]
        ops = [(i,) for i in cands]
        if k >= 2: ops += list(itertools.combinations(cands, 2))
        for op in ops:
            it, errs = run(hist + (op,)); nexec += 1
            if errs: viol.append((hist + (op,), [trans[i] for i in op], errs))
            key = (frozenset(it._configuration), tuple(sorted((h, tuple(sorted(m))) for h, m in it._memory.items())))
            if key not in seen: seen[key] = hist + (op,); frontier.append(hist + (op,))
    return st, len(seen), nexec, viol

if __name__ == '__main__':
    N = int(sys.argv[1]); k = int(sys.argv[2])
    t0 = time.time(); S = E = V = charts = shown = 0; kinds = collections.Counter()
    for n in range(2, N + 1):
        for tree in trees(n, False):
            if tree[0] not in ('C', 'O'): continue
            for scheme, decl in (('asc', 'asc'), ('asc', 'desc')):
                charts += 1
                st, ns, ne, viol = explore3(tree, scheme, k, decl)
                S += ns; E += ne; V += len(viol)
                for v in viol:
                    for e in v[-1]: kinds[e[0]] += 1
                    if shown < 5: shown += 1; print('VIOL', {n: (s['kind'], s['parent']) for n, s in st.items()}, decl, v[1:] )
    print('charts', charts, 'states', S, 'execs', E, 'violating execs', V, dict(kinds), 'wall %.1fs' % (time.time() - t0))
