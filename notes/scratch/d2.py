import sys; sys.path.insert(0,'/repo')
import pickle, copy
from sismic.model import *
from sismic.interpreter import Interpreter
from sismic.exceptions import *
from sismic.io import import_from_yaml
# D5: __old__ after pickle
sc = Statechart('t', preamble='x=0')
sc.add_state(CompoundState('root', initial='a'), None)
a = BasicState('a'); a.invariants.append('x >= __old__.x'); sc.add_state(a, 'root')
sc.add_transition(Transition('a',None,event='e',action='x+=1'))
it = Interpreter(sc); it.execute_once()
it2 = pickle.loads(pickle.dumps(it)); it3 = copy.deepcopy(it)
for name, i in (('orig',it),('pickle',it2),('deepcopy',it3)):
    i.queue('e')
    try: print('D5', name, i.execute_once())
    except Exception as e: print('D5', name, 'exc', type(e).__name__, str(e)[:80])

# D8: exit order depends on decl order
def mk(order):
    sc = Statechart('t')
    sc.add_state(CompoundState('root', initial='p'), None)
    sc.add_state(OrthogonalState('p'), 'root')
    sc.add_state(BasicState('z'), 'root')
    for n in order: sc.add_state(BasicState(n), 'p')
    sc.add_transition(Transition('p','z',event='e'))
    it = Interpreter(sc); it.execute_once(); it.queue('e'); return it.execute_once()
print('D8', mk('ab').exited_states, mk('ba').exited_states)
y1 = '''
statechart:
  name: t
  root state:
    name: root
    initial: p
    states:
    - name: p
      transitions:
      - target: z
        event: e
      parallel states:
      - name: %s
      - name: %s
    - name: z
'''
for o in (('a','b'),('b','a')):
    it = Interpreter(import_from_yaml(y1 % o)); it.execute_once(); it.queue('e'); print('D8 yaml', o, it.execute_once().exited_states)
