import sys; sys.path.insert(0,'/repo')
from sismic.model import *
from sismic.interpreter import Interpreter
from sismic.runner import AsyncRunner
sc = Statechart('t')
sc.add_state(CompoundState('root', initial='a'), None)
sc.add_state(BasicState('a'), 'root'); sc.add_state(BasicState('b'), 'root')
sc.add_transition(Transition('a','b',event='e')); sc.add_transition(Transition('b','a',event='e'))
it = Interpreter(sc)
it.queue('e','e','e')
r = AsyncRunner(it)
print('D6 first cycle returns', r.execute(), 'config', it.configuration, 'queue', it._external_queue)
