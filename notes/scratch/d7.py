import sys; sys.path.insert(0,'/repo')
import time, threading
from sismic.model import *
from sismic.interpreter import Interpreter
from sismic.runner import AsyncRunner
sc = Statechart('t')
sc.add_state(CompoundState('root', initial='a'), None); sc.add_state(BasicState('a'), 'root')
r = AsyncRunner(Interpreter(sc), interval=0.2)
r.start(); time.sleep(0.05)   # runner is now sleeping inside its cycle
# client 1 begins stop(): sets both flags
r._stop.set(); r._unpaused.set()
# client 2 pauses in between
r.pause()
# client 1 continues stop(): join
r._thread.join(timeout=1.0)
print('F13 runner thread still alive after stop+join(1s):', r._thread.is_alive())
r._unpaused.set(); r._thread.join(1); print('after manual unpause alive:', r._thread.is_alive())
