"""Design-phase prototype: family-S BFS with legality invariant (C02) on the current tree.
Throwaway: validates cost estimates and smokes out shapes that break C02/C03/C06."""
import sys, os, time, itertools, collections
sys.path.insert(0, os.environ.get('SISMIC_SRC', '/repo'))
from sismic.model import *
from sismic.interpreter import Interpreter
from sismic.exceptions import *

# ---------- skeleton enumeration (canonical unordered trees with kinds) ----------
def partitions(n, maxp=None):
    maxp = maxp or n
    if n == 0: yield (); return
    for k in range(min(n, maxp), 0, -1):
        for rest in partitions(n - k, k): yield (k,) + rest
from functools import lru_cache
@lru_cache(None)
def trees(n, in_compound):
    res = []
    if n == 1:
        res.append(('B', ()))
        if in_compound: res += [('F', ()), ('HS', ()), ('HD', ())]
        return tuple(res)
    for kind in ('C', 'O'):
        for parts in partitions(n - 1):
            if kind == 'O' and len(parts) < 2: continue
            seen = set()
            for combo in itertools.product(*[trees(p, kind == 'C') for p in parts]):
                c = tuple(sorted(combo))
                if c in seen: continue
                seen.add(c)
                if kind == 'C':
                    if not [x for x in c if x[0] not in ('HS', 'HD')]: continue
                    if sum(1 for x in c if x[0] in ('HS', 'HD')) > 1: continue
                res.append((kind, c))
    return tuple(res)

def flatten(tree, scheme='asc'):
    """-> dict name -> dict(kind,parent,children,initial,memory); names in preorder"""
    states = collections.OrderedDict(); counter = [0]
    def rec(t, parent):
        i = counter[0]; counter[0] += 1
        name = 's%02d' % (i if scheme == 'asc' else 50 - i)
        states[name] = dict(kind=t[0], parent=parent, children=[])
        if parent: states[parent]['children'].append(name)
        for c in t[1]: rec(c, name)
        return name
    rec(tree, None)
    for n, s in states.items():
        if s['kind'] == 'C':
            nonh = [c for c in s['children'] if states[c]['kind'] not in ('HS', 'HD')]
            s['initial'] = nonh[0]
            for c in s['children']:
                if states[c]['kind'] in ('HS', 'HD'): states[c]['memory'] = nonh[-1]
    return states

def anc(st, n):
    r = []
    p = st[n]['parent']
    while p: r.append(p); p = st[p]['parent']
    return r
def desc(st, n):
    r = []
    for c in st[n]['children']: r.append(c); r += desc(st, c)
    return r
def wf_pair(st, s, t):
    if st[s]['kind'] not in ('B', 'C', 'O'): return False
    if t is None: return True
    # WF6 no region crossing
    sa = [s] + anc(st, s); ta = [t] + anc(st, t)
    for o in sa:
        if o in ta and st[o]['kind'] == 'O':
            cs = [x for x in sa if st[x]['parent'] == o]; ct = [x for x in ta if st[x]['parent'] == o]
            if cs and ct and cs[0] != ct[0]: return False
    # WF5 history entered from outside parent
    if st[t]['kind'] in ('HS', 'HD'):
        p = st[t]['parent']
        if s == p or s in desc(st, p): return False
    return True

LOG = []; VAL = set()
def P(*a): LOG.append(a)
def G(tid, ev): return tid in VAL
def build(st, decl='asc'):
    sc = Statechart('t')
    names = list(st)
    # declaration order: parents first, siblings per decl
    def add(n):
        s = st[n]; k = s['kind']
        kw = dict(on_entry="P('en',%r)" % n, on_exit="P('ex',%r)" % n)
        obj = {'B': BasicState, 'F': FinalState, 'O': OrthogonalState}.get(k)
        if obj: o = obj(n, **kw)
        elif k == 'C': o = CompoundState(n, initial=s['initial'], **kw)
        elif k == 'HS': o = ShallowHistoryState(n, memory=s['memory'], **kw)
        else: o = DeepHistoryState(n, memory=s['memory'], **kw)
        sc.add_state(o, s['parent'])
        ch = s['children'] if decl == 'asc' else s['children'][::-1]
        for c in ch: add(c)
    add(names[0])
    trans = []
    for s in names:
        for t in names + [None]:
            if wf_pair(st, s, t):
                tid = len(trans)
                trans.append((s, t))
                sc.add_transition(Transition(s, t, event='e', guard='G(%d, event)' % tid, action="P('ac',%d)" % tid))
    return sc, trans

def legal(st, conf, final):
    conf = set(conf)
    if not conf: return final, 'empty but not final'
    root = next(iter(st))
    if root not in conf: return False, 'root missing'
    for n in conf:
        s = st[n]
        if s['parent'] and s['parent'] not in conf: return False, 'parent of %s inactive' % n
        if s['kind'] in ('HS', 'HD'): return False, 'history %s active' % n
        act = [c for c in s['children'] if c in conf]
        if s['kind'] == 'C' and len(act) != 1: return False, 'compound %s has %d active children' % (n, len(act))
        if s['kind'] == 'O' and len(act) != len(s['children']): return False, 'orthogonal %s has %d/%d active' % (n, len(act), len(s['children']))
    return True, ''

def explore(tree, scheme='asc', k=1, maxstates=400):
    st = flatten(tree, scheme)
    sc, trans = build(st)
    def run(hist):
        it = Interpreter(sc, initial_context={'P': P, 'G': G})
        it.execute_once()
        for op in hist:
            VAL.clear(); VAL.update(op); it.queue('e')
            try: it.execute_once()
            except (NonDeterminismError, ConflictingTransitionsError):
                VAL.clear(); it.execute_once()
        return it
    seen = {}; frontier = collections.deque([()]); nexec = 0; viol = []
    it = run(()); key = (frozenset(it._configuration), tuple(sorted((h, tuple(sorted(m))) for h, m in it._memory.items())))
    seen[key] = ()
    while frontier:
        hist = frontier.popleft()
        it0 = run(hist); conf = set(it0._configuration)
        cands = [i for i, (s, t) in enumerate(trans) if s in conf]
        ops = [(i,) for i in cands]
        if k >= 2: ops += list(itertools.combinations(cands, 2))
        for op in ops:
            it = run(hist + (op,)); nexec += 1
            ok, why = legal(st, it._configuration, it.final)
            if not ok:
                viol.append((hist + (op,), [trans[i] for i in op], sorted(it._configuration), why))
            key = (frozenset(it._configuration), tuple(sorted((h, tuple(sorted(m))) for h, m in it._memory.items())))
            if key not in seen and len(seen) < maxstates:
                seen[key] = hist + (op,); frontier.append(hist + (op,))
    return st, trans, len(seen), nexec, viol

if __name__ == '__main__':
    N = int(sys.argv[1]); k = int(sys.argv[2])
    t0 = time.time(); tot_states = tot_exec = 0; nviol = 0; shown = 0; charts = 0
    reasons = collections.Counter()
    for n in range(2, N + 1):
        for tree in trees(n, False):
            if tree[0] not in ('C', 'O'): continue
            charts += 1
            st, trans, ns, ne, viol = explore(tree, 'asc', k)
            tot_states += ns; tot_exec += ne; nviol += len(viol)
            for v in viol:
                reasons[v[3].split()[0]] += 1
                if shown < 6:
                    shown += 1; print('VIOL', {n: (s['kind'], s['parent']) for n, s in st.items()}, v[1], v[2], v[3])
    print('charts', charts, 'states', tot_states, 'execs', tot_exec, 'violations', nviol, dict(reasons), 'wall %.1fs' % (time.time() - t0))
