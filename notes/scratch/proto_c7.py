"""Design-phase prototype for C07: declaration-order variants in lock-step over BFS histories (family S)."""
import sys, os, time, itertools, collections
from proto_s import *
def sig(step):
    if step is None: return None
    return (step.event.name if step.event else None,
            tuple((ms.transition.guard if ms.transition else None, tuple(ms.exited_states), tuple(ms.entered_states)) for ms in step.steps))
def run(sc, hist):
    it = Interpreter(sc, initial_context={'P': P, 'G': G}); out = [sig(it.execute_once())]
    for op in hist:
        VAL.clear(); VAL.update(op); it.queue('e')
        try: out.append(sig(it.execute_once()))
        except Exception as e:
            out.append(type(e).__name__); VAL.clear()
            while it.execute_once(): pass
    return it, out
def build_perm(st, perm_seed, rev_trans):
    # permute children order by rotating/reversing according to perm_seed; transitions reversed optionally
    sc = Statechart('t'); names = list(st)
    def add(n):
        s = st[n]; k = s['kind']
        kw = dict(on_entry="P('en',%r)" % n, on_exit="P('ex',%r)" % n)
        if k in ('B', 'F', 'O'): o = {'B': BasicState, 'F': FinalState, 'O': OrthogonalState}[k](n, **kw)
        elif k == 'C': o = CompoundState(n, initial=s['initial'], **kw)
        elif k == 'HS': o = ShallowHistoryState(n, memory=s['memory'], **kw)
        else: o = DeepHistoryState(n, memory=s['memory'], **kw)
        sc.add_state(o, s['parent'])
        ch = list(s['children'])
        if perm_seed == 1: ch = ch[::-1]
        elif perm_seed == 2: ch = ch[1:] + ch[:1]
        for c in ch: add(c)
    add(names[0])
    trans = [(s, t) for s in names for t in names + [None] if wf_pair(st, s, t)]
    order = list(enumerate(trans))
    if rev_trans: order = order[::-1]
    for tid, (s, t) in order:
        sc.add_transition(Transition(s, t, event='e', guard='G(%d, event)' % tid, action="P('ac',%d)" % tid))
    return sc, trans
if __name__ == '__main__':
    N = int(sys.argv[1]); k = int(sys.argv[2]); t0 = time.time(); C = E = V = 0; shown = 0
    for n in range(2, N + 1):
        for tree in trees(n, False):
            if tree[0] not in ('C', 'O'): continue
            st = flatten(tree, 'asc'); variants = [build_perm(st, p, r) for p in (0, 1, 2) for r in (0, 1)]
            base, trans = variants[0]; C += 1
            seen = {}; fr = collections.deque([()]); it, _ = run(base, ()); 
            key = lambda it: (frozenset(it._configuration), tuple(sorted((h, tuple(sorted(m))) for h, m in it._memory.items())))
            seen[key(it)] = ()
            while fr:
                h = fr.popleft(); it0, _ = run(base, h); conf = set(it0._configuration)
                cands = [i for i, (s, t) in enumerate(trans) if s in conf]
                ops = [(i,) for i in cands] + (list(itertools.combinations(cands, 2)) if k >= 2 else [])
                for op in ops:
                    it, ref = run(base, h + (op,)); E += 1
                    for vi, (sc, _) in enumerate(variants[1:], 1):
                        _, got = run(sc, h + (op,))
                        if got != ref:
                            V += 1
                            if shown < 4: shown += 1; print('DIFF variant', vi, {n: (s['kind'], s['parent']) for n, s in st.items()}, [trans[i] for i in op], ref[-1], got[-1])
                            break
                    kk = key(it)
                    if kk not in seen: seen[kk] = h + (op,); fr.append(h + (op,))
    print('charts', C, 'histories', E, 'differing', V, 'wall %.1fs' % (time.time() - t0))
