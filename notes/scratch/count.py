# count canonical kind-labelled trees (unordered) under WF constraints
from functools import lru_cache
from itertools import combinations_with_replacement, product
import sys
# node kinds: B basic, F final, HS shallow hist, HD deep hist, C compound, O orthogonal
# returns list of canonical trees (as nested tuples) with exactly n nodes whose root may serve in context ctx in {'root','incompound','region'}
@lru_cache(None)
def trees(n, allow_hist_final):
    res=[]
    if n==1:
        res.append(('B',()))
        if allow_hist_final:
            res += [('F',()),('HS',()),('HD',())]
        return tuple(res)
    # composite with children multiset summing to n-1
    for kind in ('C','O'):
        for parts in partitions(n-1):
            if kind=='O' and len(parts)<2: continue
            opts=[trees(p, kind=='C') for p in parts]
            seen=set()
            for combo in product(*opts):
                c=tuple(sorted(combo))
                if c in seen: continue
                seen.add(c)
                if kind=='C':
                    nonhist=[x for x in c if x[0] not in ('HS','HD')]
                    if not nonhist: continue   # needs an initial child & memory target
                    if sum(1 for x in c if x[0] in('HS','HD'))>1: continue
                res.append((kind,c))
    return tuple(res)
def partitions(n, maxp=None):
    maxp = maxp or n
    if n==0: yield (); return
    for k in range(min(n,maxp),0,-1):
        for rest in partitions(n-k,k): yield (k,)+rest
for N in range(1,8):
    t=[x for x in trees(N, False) if x[0] in('C','O')]
    nh=[x for x in t if 'H' not in repr(x) and "'F'" not in repr(x)]
    print(N, len(t), 'without hist/final:', len(nh))
