"""Design-phase prototype for C16: reference editor vs Statechart editing API, BFS over op sequences."""
import sys, os, time, itertools, collections, copy
sys.path.insert(0, os.environ.get('SISMIC_SRC', '/repo'))
from sismic.model import *
from sismic.exceptions import StatechartError

KINDS = {'B': BasicState, 'C': CompoundState, 'O': OrthogonalState, 'F': FinalState, 'HS': ShallowHistoryState, 'HD': DeepHistoryState}
def kind_of(o):
    for k, c in KINDS.items():
        if type(o) is c: return k

class Ref:
    def __init__(self): self.st = {}; self.tr = []   # name -> dict(kind,parent,initial,memory); tr: list of [src,tgt,ev]
    def clone(self): r = Ref(); r.st = copy.deepcopy(self.st); r.tr = copy.deepcopy(self.tr); return r
    def children(self, n): return [x for x, s in self.st.items() if s['parent'] == n]
    def desc(self, n):
        r = []
        for c in self.children(n): r.append(c); r += self.desc(c)
        return r
    def root(self):
        for n, s in self.st.items():
            if s['parent'] is None: return n
    def obs(self):
        return (tuple(sorted((n, s['kind'], s['parent'], s.get('initial'), s.get('memory')) for n, s in self.st.items())),
                tuple(sorted((a, b or '', c or '') for a, b, c in self.tr)))
    # each op returns None on success or the expected exception class
    def add_state(self, kind, name, parent):
        if name in self.st: return StatechartError
        if not parent:
            if self.root(): return StatechartError
            if kind in ('HS', 'HD') and os.environ.get('ROOT_HISTORY_REJECTED'): return StatechartError
        else:
            if parent not in self.st: return StatechartError
            if self.st[parent]['kind'] not in ('C', 'O'): return StatechartError
            if kind in ('HS', 'HD') and self.st[parent]['kind'] != 'C': return StatechartError
        self.st[name] = dict(kind=kind, parent=parent or None, initial=None, memory=None)
    def remove_state(self, name):
        if name not in self.st: return StatechartError
        gone = [name] + self.desc(name)
        self.tr = [t for t in self.tr if t[0] not in gone and t[1] not in gone]
        for g in gone: del self.st[g]
        for s in self.st.values():
            if s.get('initial') in gone: s['initial'] = None
            if s.get('memory') in gone: s['memory'] = None
    def rename_state(self, old, new):
        if old == new: return None
        if new in self.st: return StatechartError
        if old not in self.st: return StatechartError
        self.st[new] = self.st.pop(old)
        for s in self.st.values():
            for f in ('parent', 'initial', 'memory'):
                if s.get(f) == old: s[f] = new
        for t in self.tr:
            if t[0] == old: t[0] = new
            if t[1] == old: t[1] = new
    def move_state(self, name, newp):
        if name not in self.st or newp not in self.st: return StatechartError
        if newp in [name] + self.desc(name): return StatechartError
        self.st[name]['parent'] = newp
        if self.st[name]['kind'] in ('HS', 'HD'): self.st[name]['memory'] = None
        for s in self.st.values():
            if s.get('initial') == name: s['initial'] = None
            if s.get('memory') == name: s['memory'] = None
    def add_transition(self, src, tgt, ev):
        if src not in self.st: return StatechartError
        if self.st[src]['kind'] not in ('B', 'C', 'O'): return StatechartError
        if tgt is not None and tgt not in self.st: return StatechartError
        self.tr.append([src, tgt, ev])
    def remove_transition(self, src, tgt, ev):
        if [src, tgt, ev] not in self.tr: return StatechartError
        self.tr.remove([src, tgt, ev])
    def rotate_transition(self, idx, ns, nt):
        if ns == '' and nt == '': return ValueError
        t = self.tr[idx]
        if ns != '':
            if ns not in self.st: return StatechartError
            if self.st[ns]['kind'] not in ('B', 'C', 'O'): return StatechartError
        if nt != '' and nt is not None and nt not in self.st: return StatechartError
        if ns != '': t[0] = ns
        if nt != '': t[1] = nt

def obs_impl(sc):
    sts = []
    for n in sc.states:
        o = sc.state_for(n)
        assert set(sc.children_for(n)) == {c for c in sc.states if sc.parent_for(c) == n}, 'parent/children inconsistent'
        sts.append((n, kind_of(o), sc.parent_for(n), getattr(o, 'initial', None), getattr(o, 'memory', None)))
    return (tuple(sorted(sts)), tuple(sorted((t.source, t.target or '', t.event or '') for t in sc.transitions)))

def initial():
    ops = [('add_state', 'C', 'r', None), ('add_state', 'C', 'c', 'r'), ('add_state', 'B', 'a', 'c'), ('add_state', 'B', 'b', 'c'),
           ('add_state', 'HS', 'h', 'c'), ('add_state', 'O', 'o', 'r'), ('add_state', 'B', 'p', 'o'), ('add_state', 'F', 'f', 'r'),
           ('add_transition', 'a', 'b', 'x'), ('add_transition', 'a', None, 'y'), ('add_transition', 'c', 'f', 'z'), ('add_transition', 'p', 'h', 'w')]
    return ops, {'r': ('initial', 'c'), 'c': ('initial', 'a'), 'h': ('memory', 'b')}

def apply_impl(sc, op):
    k = op[0]
    if k == 'add_state':
        _, kind, name, parent = op; sc.add_state(KINDS[kind](name), parent)
    elif k == 'remove_state': sc.remove_state(op[1])
    elif k == 'rename_state': sc.rename_state(op[1], op[2])
    elif k == 'move_state': sc.move_state(op[1], op[2])
    elif k == 'add_transition': sc.add_transition(Transition(op[1], op[2], event=op[3]))
    elif k == 'remove_transition': sc.remove_transition(Transition(op[1], op[2], event=op[3]))
    elif k == 'rotate_transition':
        t = [t for t in sc.transitions if (t.source, t.target, t.event) == tuple(op[1])][0]
        kw = {}
        if op[2] != '': kw['new_source'] = op[2]
        if op[3] != '': kw['new_target'] = op[3]
        sc.rotate_transition(t, **kw)
def apply_ref(ref, op):
    k = op[0]
    if k == 'rotate_transition':
        idx = ref.tr.index(list(op[1])); return ref.rotate_transition(idx, op[2], op[3])
    return getattr(ref, k)(*op[1:])

def build(hist):
    base, props = initial()
    sc = Statechart('t'); ref = Ref()
    for op in base: apply_impl(sc, op); assert apply_ref(ref, op) is None
    for n, (f, v) in props.items(): setattr(sc.state_for(n), f, v); ref.st[n][f] = v
    for op in hist:
        exp = apply_ref(ref.clone(), op)
        try: apply_impl(sc, op)
        except (StatechartError, ValueError): pass
        if exp is None: apply_ref(ref, op)
    return sc, ref

def ops_for(ref):
    names = sorted(ref.st) ; ops = []
    for kind in ('B', 'C', 'HS'):
        for name in ('new', names[0] if names else 'new'):
            for parent in names + ['zz', None]: ops.append(('add_state', kind, name, parent))
    for n in names + ['zz']: ops.append(('remove_state', n))
    for n in names + ['zz']:
        for m in ('new', n, names[0] if names else 'q'): ops.append(('rename_state', n, m))
    for n in names + ['zz']:
        for m in names + ['zz']: ops.append(('move_state', n, m))
    for n in names + ['zz']:
        for m in names[:3] + [None, 'zz']: ops.append(('add_transition', n, m, 'k'))
    for t in ref.tr: ops.append(('remove_transition', t[0], t[1], t[2]))
    ops.append(('remove_transition', 'a', 'a', 'nope'))
    seen_t = set()
    for t in ref.tr:
        if tuple(t) in seen_t: continue
        seen_t.add(tuple(t))
        for ns in [''] + names[:4] + ['zz']:
            for nt in ['', None] + names[:3] + ['zz']: ops.append(('rotate_transition', tuple(t), ns, nt))
    return ops

if __name__ == '__main__':
    depth = int(sys.argv[1]); t0 = time.time()
    seen = {}; fr = collections.deque([()]); nexec = 0; viol = collections.Counter(); examples = {}
    sc, ref = build(()); seen[ref.obs()] = ()
    assert obs_impl(sc) == ref.obs()
    while fr:
        h = fr.popleft()
        if len(h) >= depth: continue
        _, ref0 = build(h)
        for op in ops_for(ref0):
            sc, ref = build(h); before = obs_impl(sc); nexec += 1
            r2 = ref.clone(); exp = apply_ref(r2, op)
            try: apply_impl(sc, op); got = None
            except (StatechartError, ValueError) as e: got = type(e)
            except Exception as e: got = type(e)
            after = obs_impl(sc)
            v = None
            if got is not exp: v = 'outcome exp=%s got=%s' % (getattr(exp, '__name__', exp), getattr(got, '__name__', got))
            elif exp is None and after != r2.obs(): v = 'post-state differs'
            elif exp is not None and after != before: v = 'failed edit changed state'
            if exp is None and got is None:
                try: sc.validate()
                except StatechartError as e: v = (v or '') + ' validate fails: %s' % e
            if v:
                kind = op[0] + ': ' + v.split(' exp=')[0][:40]; viol[kind] += 1; examples.setdefault(kind, (h, op, v))
            if exp is None and got is None:
                key = r2.obs()
                if key not in seen and v is None: seen[key] = h + (op,); fr.append(h + (op,))
    print('states', len(seen), 'ops applied', nexec, 'wall %.1fs' % (time.time() - t0))
    for k, c in viol.items(): print(c, k, examples[k])
