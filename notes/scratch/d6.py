import sys; sys.path.insert(0,'/repo')
from sismic.io import import_from_yaml, export_to_yaml
from sismic.model import *
from sismic.exceptions import StatechartError
nasty = ['a', '1', '1.5', 'yes', 'no', 'null', '~', 'true', ' lead', 'trail ', 'a: b', 'a #c', '- x', '[x]', '{x}', '"q"', "'q'", 'é', '日本', 'a\nb', 'a\tb', '\x85', ' ', '🎉', '!tag', '&a', '*a', '|', '>', '%', '@', '`', '0x10', '1e3', '1_000', '.inf', '2001-01-01', '=', '<<', 'a\\nb', '\x07', '﻿', 'None', '0o7', '1:30', '?', ',', '#', 'x\r', '\x1b', '퟿', '￾']
bad = []
for s in nasty:
    sc = Statechart(s, description=s, preamble=None)
    sc.add_state(CompoundState('root', initial=s), None)
    sc.add_state(BasicState(s), 'root')
    sc.add_state(BasicState('z'), 'root')
    sc.add_transition(Transition(s, 'z', event=s.strip() or None))
    sc.add_transition(Transition('z', s, event='e'))
    try:
        y = export_to_yaml(sc)
        sc2 = import_from_yaml(y)
        ok = (sc2.name == s and sc2.description == s and sorted(sc2.states)==sorted(sc.states)
              and sc2.state_for('root').initial == s
              and {(t.source,t.target,t.event) for t in sc2.transitions}=={(t.source,t.target,t.event) for t in sc.transitions})
        if not ok: bad.append((s, 'MISMATCH', sc2.name, sc2.states, [ (t.source,t.target,t.event) for t in sc2.transitions]))
    except Exception as e:
        bad.append((s, type(e).__name__, str(e)[:100]))
for b in bad: print(repr(b))
print(len(nasty), 'tested', len(bad), 'bad')
