"""Design-phase prototype for C01: probe scheme P, all configs via child-selection nav, all valuations <=k."""
import sys, os, time, itertools, collections
from proto_s import trees, flatten, anc, desc, P, G, LOG, VAL
import proto_s
from sismic.model import *
from sismic.interpreter import Interpreter
from sismic.exceptions import *

SEEN = []
def G2(tid, ev):
    SEEN.append((tid, ev)); return tid in VAL

def build_p(st, prios):
    sc = Statechart('t'); names = list(st)
    def add(n):
        s = st[n]; k = s['kind']
        if k == 'B': o = BasicState(n)
        elif k == 'O': o = OrthogonalState(n)
        else: o = CompoundState(n, initial=s['initial'])
        sc.add_state(o, s['parent'])
        for c in s['children']: add(c)
    add(names[0])
    probes = []  # (tid, source, evclass, prio)
    for s in names:
        for ev in (None, 'e', 'f'):
            for pr in prios:
                tid = len(probes); probes.append((s, ev, pr))
                sc.add_transition(Transition(s, None, event=ev, guard='G(%d, event)' % tid, priority=pr))
    navs = []
    for c in names:
        if st[c]['kind'] == 'C':
            for x in st[c]['children']:
                sc.add_transition(Transition(c, x, event='nav:%s:%s' % (c, x))); navs.append('nav:%s:%s' % (c, x))
    return sc, probes, navs

def ref_select(st, probes, conf, pending, val):
    enabled = [i for i in val if probes[i][0] in conf and (probes[i][1] is None or probes[i][1] == pending)]
    evless = [i for i in enabled if probes[i][1] is None]
    comp = evless if evless else enabled
    fired = []
    for i in comp:
        s, ev, pr = probes[i]
        if any(probes[j][0] in desc(st, s) for j in comp): continue
        if any(probes[j][0] == s and probes[j][2] > pr for j in comp): continue
        fired.append(i)
    return fired, bool(evless)

def conflict_free(st, probes, fired):
    for a, b in itertools.combinations(fired, 2):
        sa, sb = probes[a][0], probes[b][0]
        if sa == sb: return False
        common = [x for x in anc(st, sa) if x in anc(st, sb)]
        if not common or st[common[0]]['kind'] != 'O': return False
    return True

def run_chart(tree, scheme, k, prios):
    st = flatten(tree, scheme); sc, probes, navs = build_p(st, prios)
    def mk(hist):
        it = Interpreter(sc, initial_context={'G': G2}); it.execute_once()
        for nv in hist: it.queue(nv); it.execute_once()
        return it
    seen = {}; fr = collections.deque([()]); it = mk(()); seen[frozenset(it._configuration)] = ()
    while fr:
        h = fr.popleft()
        for nv in navs:
            it = mk(h + (nv,)); key = frozenset(it._configuration)
            if key not in seen: seen[key] = h + (nv,); fr.append(h + (nv,))
    nexec = 0; viol = []; outcomes = collections.Counter()
    for conf, h in seen.items():
        it = mk(h)
        cands = [i for i, (s, ev, pr) in enumerate(probes) if s in conf]
        vals = [()]
        for r in range(1, k + 1): vals += list(itertools.combinations(cands, r))
        for pending in (None, 'e'):
            for val in vals:
                VAL.clear(); VAL.update(val); SEEN.clear()
                if pending: it.queue(Event(pending, k=7))
                fired, evless = ref_select(st, probes, conf, pending, val)
                nexec += 1
                try:
                    step = it.execute_once()
                except (NonDeterminismError, ConflictingTransitionsError, StatechartError) as e:
                    outcomes[type(e).__name__] += 1
                    if conflict_free(st, probes, fired): viol.append((sorted(conf), pending, val, 'unexpected ' + type(e).__name__))
                    VAL.clear(); it.execute_once();
                    while it.execute_once(): pass
                    continue
                if not conflict_free(st, probes, fired):
                    outcomes['expected-error-but-step'] += 1   # C04's business
                else:
                    got = sorted(int(t.guard.split('(')[1].split(',')[0]) for t in step.transitions) if step else []
                    exp_ev = None if (evless or not pending) else pending
                    if not fired and not pending: ok = step is None
                    else: ok = step is not None and got == sorted(fired) and ((step.event.name if step.event else None) == exp_ev)
                    outcomes['step' if step else 'none'] += 1
                    if not ok: viol.append((sorted(conf), pending, [probes[i] for i in val], 'exp', [probes[i] for i in fired], 'got', step))
                    for tid, ev in SEEN:
                        if probes[tid][1] is None and ev is not None: viol.append(('eventless guard saw event', tid))
                        if probes[tid][1] is not None and (ev is None or ev.name != pending or ev.k != 7): viol.append(('evented guard saw wrong event', tid, ev))
                # drain
                VAL.clear()
                while it.execute_once(): pass
    return st, len(seen), nexec, viol, outcomes

if __name__ == '__main__':
    N = int(sys.argv[1]); k = int(sys.argv[2]); prios = (0, 1) if len(sys.argv) < 4 else (-1, 0, 1)
    t0 = time.time(); C = S = E = V = 0; out = collections.Counter(); shown = 0
    for n in range(2, N + 1):
        for tree in trees(n, False):
            if tree[0] not in ('C', 'O') or 'H' in repr(tree) or "'F'" in repr(tree): continue
            for scheme in ('asc', 'desc'):
                st, ns, ne, viol, oc = run_chart(tree, scheme, k, prios); C += 1; S += ns; E += ne; V += len(viol); out.update(oc)
                for v in viol[:2]:
                    if shown < 6: shown += 1; print('VIOL', {n: (s['kind'], s['parent']) for n, s in st.items()}, v)
    print('charts', C, 'configs', S, 'execs', E, 'viol', V, dict(out), 'wall %.1fs' % (time.time() - t0))
