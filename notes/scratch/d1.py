import sys; sys.path.insert(0,'/repo')
from sismic.model import *
from sismic.interpreter import Interpreter
from sismic.exceptions import *
import sismic; print(sismic.__file__)
# D1: enter nested state of orthogonal region from outside
sc = Statechart('t')
sc.add_state(CompoundState('root', initial='a'), None)
sc.add_state(BasicState('a'), 'root')
sc.add_state(OrthogonalState('p'), 'root')
sc.add_state(CompoundState('r1', initial='r1a'), 'p')
sc.add_state(CompoundState('r2', initial='r2a'), 'p')
for r in ('r1','r2'):
    sc.add_state(BasicState(r+'a'), r); sc.add_state(BasicState(r+'b'), r)
sc.add_transition(Transition('a','r1b',event='go'))
it = Interpreter(sc); it.execute_once(); it.queue('go'); print(it.execute_once()); print('D1 config', it.configuration)

# D2: two transitions from same source under orthogonal parent
sc = Statechart('t')
sc.add_state(OrthogonalState('root'), None)
sc.add_state(BasicState('a'), 'root'); sc.add_state(BasicState('b'), 'root')
sc.add_transition(Transition('a',None,event='e',action='x=1'))
sc.add_transition(Transition('a','a',event='e',action='y=1'))
it = Interpreter(sc); it.execute_once(); it.queue('e')
try: print('D2', it.execute_once())
except Exception as e: print('D2 exc', type(e))
sc = Statechart('t')
sc.add_state(CompoundState('root', initial='a'), None)
sc.add_state(BasicState('a'), 'root')
sc.add_transition(Transition('root',None,event='e',action='x=1'))
sc.add_transition(Transition('root','a',event='e',action='y=1'))
it = Interpreter(sc); it.execute_once(); it.queue('e')
try: print('D2b', it.execute_once())
except Exception as e: print('D2b exc', type(e), e)
# D3
print('D3', BasicState('a', on_entry='x=1') == BasicState('a', on_entry='x=1'))
# D4
sc = Statechart('t')
sc.add_state(CompoundState('root', initial='a'), None)
sc.add_state(BasicState('a'), 'root')
t=Transition('a',None,event='e'); sc.add_transition(t)
sc.rename_state('a','b'); print('D4 internal after rename:', t.internal, t)
# D9
sc = Statechart('t')
sc.add_state(CompoundState('root', initial='a'), None)
sc.add_state(BasicState('a'), 'root'); sc.add_state(BasicState('b'), 'root')
t=Transition('a','b',event='e'); sc.add_transition(t)
try: sc.rotate_transition(t, new_source='b', new_target='zzz')
except StatechartError as e: print('D9 after failed rotate:', t.source, t.target)
