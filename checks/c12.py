"""C12 — YAML import accepts only structurally sound statecharts.

Fault enumeration: valid documents (every skeleton chart with all field kinds, rendered to YAML) are
imported and the result is checked against the structural rules through the public queries; then
every listed fault operator is applied at every applicable position, singly and in all pairs (and
triples in the thorough tier for the smallest charts): every faulty document must be rejected with
StatechartError — never accepted, never another exception type."""
import collections
import copy
import itertools
import json
import time as _time

from mc import harness, schemes
from mc.chartgen import skeletons, flatten, add_scheme_S, has_variant, describe, to_doc, Tree, HIST

from sismic.exceptions import StatechartError
from sismic.io import import_from_yaml
from sismic.model import (CompoundState, OrthogonalState, FinalState, ShallowHistoryState,
                          DeepHistoryState, BasicState)

PLAN = {
    # (nmin, nmax, max simultaneous faults)
    'quick': [(2, 2, 3), (3, 3, 2), (4, 5, 1)],
    'thorough': [(2, 3, 3), (4, 5, 2), (6, 6, 1)],
}


def make_spec(task):
    tree, ivar = task[0], task[1]
    spec = add_scheme_S(flatten(tree, 'asc', ivar))
    # keep documents small: a handful of transitions is enough for the fault positions
    spec['transitions'] = [t for t in spec['transitions'] if t['tid'] % 3 == 0][:6]
    for i, t in enumerate(spec['transitions']):
        t['priority'] = (0, 1, -1, 5)[i % 4]
        if i % 2 == 0:
            t['guard'] = 'x in {1, 2} or {} == dict()'      # code is opaque text for the importer, braces included
        if i % 3 == 0 and t.get('event'):
            t['event'] = '{%s}' % t['event']
        if i % 2 == 0:
            t['pre'] = ['True']
    for i, s in enumerate(spec['states']):
        if i % 2 == 0:
            s['inv'] = ['True']
    spec['name'] = 'c12'
    spec['description'] = 'd'
    return spec


# ------------------------------------------------------------------------------------ walking the doc
def walk_states(doc):
    """-> list of (state dict, parent state dict or None, list holding it or None)"""
    out = []

    def rec(sd, parent, holder):
        out.append((sd, parent, holder))
        for key in ('states', 'parallel states'):
            for c in sd.get(key, []):
                rec(c, sd, sd[key])
    rec(doc['statechart']['root state'], None, None)
    return out


def faults_for(doc):
    """-> list of (label, field-id, function(doc_copy)) ; functions mutate a deep copy located by index"""
    F = []
    states = walk_states(doc)
    names = [s['name'] for s, _, _ in states]

    def at(i):
        return lambda d: walk_states(d)[i][0]

    def kids(sd):
        return sd.get('states', []) + sd.get('parallel states', [])
    for i, (sd, parent, holder) in enumerate(states):
        n = sd['name']
        typ = sd.get('type')
        # duplicate names: this state takes the name of another one
        first = True
        for m in names:
            if m != n:
                # every ordered pair singly; only the first one per state takes part in combinations
                F.append(('state %s renamed to existing name %s' % (n, m), ('name', i) if first else ('name1', i),
                          lambda d, i=i, m=m: at(i)(d).__setitem__('name', m)))
                first = False
        F.append(('state %s without name' % n, ('name', i), lambda d, i=i: at(i)(d).pop('name')))
        referenced = any(td.get('target') == n for sd2, _, _ in states for td in sd2.get('transitions', [])) or \
            any(sd2.get('initial') == n or sd2.get('memory') == n for sd2, _, _ in states)
        if referenced:
            # names are taken verbatim: "n " is not n, so every reference to n now dangles
            F.append(('state %s declared as %r while it is referred to as %r' % (n, n + ' ', n), ('name1', i),
                      lambda d, i=i, n=n: at(i)(d).__setitem__('name', n + ' ')))
        F.append(('unknown key on state %s' % n, ('key', i), lambda d, i=i: at(i)(d).__setitem__('colour', 'red')))
        if typ is None:
            F.append(('unknown type on state %s' % n, ('type', i), lambda d, i=i: at(i)(d).__setitem__('type', 'bogus')))
        if typ in ('final', 'shallow history', 'deep history'):
            F.append(('transitions on %s state %s' % (typ, n), ('transitions', i),
                      lambda d, i=i: at(i)(d).__setitem__('transitions', [{'target': names[0]}])))
        if 'parallel states' in sd:
            F.append(('history state under orthogonal state %s' % n, ('child', i),
                      lambda d, i=i: at(i)(d)['parallel states'].append({'name': 'hx', 'type': 'shallow history'})))
            F.append(('both states and parallel states on %s' % n, ('both', i),
                      lambda d, i=i: at(i)(d).__setitem__('states', [{'name': 'extra1'}])))
        if 'states' in sd:
            F.append(('both states and parallel states on %s' % n, ('both', i),
                      lambda d, i=i: at(i)(d).__setitem__('parallel states', [{'name': 'extra2'}])))
            children = [c['name'] for c in sd['states']]
            grand = [g['name'] for c in sd['states'] for g in kids(c)]
            uncles = [u['name'] for u in kids(parent) if u['name'] != n] if parent else []
            bad = [('itself', n), ('an unknown state', 'zz_unknown')]
            if grand:
                bad.append(('a grandchild', grand[0]))
            if uncles:
                bad.append(('an uncle', uncles[0]))
            for what, v in bad:
                F.append(('initial of %s names %s' % (n, what), ('initial', i),
                          lambda d, i=i, v=v: at(i)(d).__setitem__('initial', v)))
        if typ in ('shallow history', 'deep history'):
            sibs = [c['name'] for c in kids(parent) if c['name'] != n]
            nonsib = [m for m in names if m not in sibs and m != n and m != parent['name']]
            bad = [('itself', n), ('its parent', parent['name']), ('an unknown state', 'zz_unknown')]
            if nonsib:
                bad.append(('a non-sibling', nonsib[0]))
                bad.append(('a non-sibling', nonsib[-1]))
            for what, v in bad:
                F.append(('memory of %s names %s' % (n, what), ('memory', i),
                          lambda d, i=i, v=v: at(i)(d).__setitem__('memory', v)))
        for j, td in enumerate(sd.get('transitions', [])):
            F.append(('unknown target on transition %d of %s' % (j, n), ('target', i, j),
                      lambda d, i=i, j=j: at(i)(d)['transitions'][j].__setitem__('target', 'zz_unknown')))
            F.append(('empty target on transition %d of %s' % (j, n), ('target', i, j),
                      lambda d, i=i, j=j: at(i)(d)['transitions'][j].__setitem__('target', '')))
            F.append(('unknown key on transition %d of %s' % (j, n), ('tkey', i, j),
                      lambda d, i=i, j=j: at(i)(d)['transitions'][j].__setitem__('colour', 'red')))
            F.append(('unknown priority word on transition %d of %s' % (j, n), ('prio', i, j),
                      lambda d, i=i, j=j: at(i)(d)['transitions'][j].__setitem__('priority', 'urgent')))
            if td.get('contract'):
                F.append(('unknown key in contract of transition %d of %s' % (j, n), ('tcontract', i, j),
                          lambda d, i=i, j=j: at(i)(d)['transitions'][j]['contract'].append({'sometimes': 'x'})))
        if sd.get('contract'):
            F.append(('unknown key in contract of state %s' % n, ('contract', i),
                      lambda d, i=i: at(i)(d)['contract'].append({'sometimes': 'x'})))
    F.append(('statechart without name', ('scname',), lambda d: d['statechart'].pop('name')))
    F.append(('statechart without root state', ('root',), lambda d: d['statechart'].pop('root state')))
    F.append(('unknown key on statechart', ('sckey',), lambda d: d['statechart'].__setitem__('colour', 'red')))
    F.append(('document without statechart', ('sc',), lambda d: d.__setitem__('chart', d.pop('statechart'))))
    F.append(('history state as root state', ('root',),
              lambda d: d['statechart'].__setitem__('root state', {'name': 'hroot', 'type': 'shallow history'})))
    F.append(('history state as root state', ('root',),
              lambda d: d['statechart'].__setitem__('root state', {'name': 'hroot', 'type': 'deep history',
                                                                   'on entry': 'x = 1'})))
    return F


def conflicts(fa, fb):
    """two faults on the same field (or one removing what the other edits) are not combined"""
    a, b = fa[1], fb[1]
    if a == b:
        return True
    if a[0] == 'name1' or b[0] == 'name1':
        return True          # the remaining duplicate-name faults are only applied singly
    if a[0] == 'name' and b[0] == 'name' and 'renamed' in fa[0] and 'renamed' in fb[0]:
        return True          # two renamings can cancel out (swap): not combined
    if a[0] in ('root', 'sc') or b[0] in ('root', 'sc'):
        return True
    return False


def try_import(doc, relaxed_first=False):
    text = json.dumps(doc)          # JSON is YAML: a cheap, exact serialisation of the faulty document
    if relaxed_first:
        # the same text was imported before with the schema check switched off (whatever that import did, it must
        # not change what the default import says)
        try:
            import_from_yaml(text, ignore_schema=True)
        except Exception:
            pass
    try:
        sc = import_from_yaml(text)
        return 'accepted', sc
    except StatechartError:
        return 'StatechartError', None
    except Exception as e:
        return type(e).__name__, None


def check_valid(sc):
    """structural rules of the statement, through the public queries"""
    out = []
    names = sc.states
    if len(names) != len(set(names)):
        out.append('duplicate names')
    roots = [n for n in names if sc.parent_for(n) is None]
    if len(roots) != 1:
        out.append('not one tree: roots %s' % roots)
    for n in names:
        o = sc.state_for(n)
        p = sc.parent_for(n)
        if p is not None and n not in sc.children_for(p):
            out.append('%s not among the children of its parent' % n)
        if isinstance(o, (ShallowHistoryState, DeepHistoryState)):
            if p is None or not isinstance(sc.state_for(p), CompoundState):
                out.append('history state %s is not inside a compound state' % n)
            if o.memory is not None and (o.memory == n or o.memory not in names or sc.parent_for(o.memory) != p):
                out.append('memory %s of %s is not a sibling' % (o.memory, n))
        if isinstance(o, CompoundState) and o.initial is not None and o.initial not in sc.children_for(n):
            out.append('initial %s of %s is not a direct child' % (o.initial, n))
    for t in sc.transitions:
        if t.source not in names or not isinstance(sc.state_for(t.source), (BasicState, CompoundState, OrthogonalState)):
            out.append('transition from %s which may not own transitions' % t.source)
        if t.target is not None and t.target not in names:
            out.append('transition to unknown state %s' % t.target)
    return out


def work(task):
    spec = make_spec(task)
    maxf = task[2]
    doc = to_doc(spec)
    res = {'evaluations': 0, 'outcomes': collections.Counter(), 'found': [], 'nviol': 0,
           'desc': describe(spec), 'task': task, 'nfaults': 0}

    def viol(labels, kind, msg):
        res['nviol'] += 1
        if len(res['found']) < 6:
            res['found'].append({'faults': labels, 'kind': kind, 'detail': msg})
    out, sc = try_import(doc)
    res['evaluations'] += 1
    if out != 'accepted':
        viol([], 'valid-rejected', 'the valid document is rejected: %s' % out)
        return res
    for pb in check_valid(sc):
        viol([], 'unsound', 'imported statechart: %s' % pb)
    # valid too: one state whose name carries surrounding whitespace, used consistently in every reference
    for sd0, _, _ in walk_states(doc)[:4]:
        old = sd0['name']
        d = json.loads(json.dumps(doc).replace(json.dumps(old), json.dumps(' ' + old + ' ')))
        out2, sc2 = try_import(d)
        res['evaluations'] += 1
        res['outcomes']['valid, padded name: ' + out2] += 1
        if out2 != 'accepted':
            viol([], 'valid-rejected', 'the valid document in which %r is consistently named %r is rejected: %s'
                 % (old, ' ' + old + ' ', out2))
        else:
            if (' ' + old + ' ') not in sc2.states:
                viol([], 'unsound', 'state declared as %r is imported as one of %s' % (' ' + old + ' ', sc2.states))
            for pb in check_valid(sc2):
                viol([], 'unsound', 'imported statechart (padded name %r): %s' % (old, pb))
    F = faults_for(doc)
    res['nfaults'] = len(F)
    for r in range(1, maxf + 1):
        for combo in itertools.combinations(range(len(F)), r):
            fs = [F[i] for i in combo]
            if any(conflicts(a, b) for a, b in itertools.combinations(fs, 2)):
                continue
            if r == 3 and len(set(f[1][0] for f in fs)) < 3:
                continue        # triples: three different kinds of fault only
            d = copy.deepcopy(doc)
            try:
                for f in fs:
                    f[2](d)
            except (KeyError, IndexError):
                continue        # a previous fault removed the position of this one
            out, sc = try_import(d)
            res['evaluations'] += 1
            res['outcomes'][out] += 1
            labels = [f[0] for f in fs]
            if r == 1:
                again, _ = try_import(d, relaxed_first=True)
                res['evaluations'] += 1
                if again != out:
                    viol(labels, 'unstable', 'document with fault(s) %s: %s by default, but %s once the same text has '
                         'been imported with ignore_schema=True' % (labels, out, again))
            if out == 'accepted':
                viol(labels, 'accepted', 'document with fault(s) %s is accepted' % labels)
            elif out != 'StatechartError':
                viol(labels, 'wrong-exception', 'document with fault(s) %s raises %s instead of StatechartError'
                     % (labels, out))
    return res


def run(tier, seed):
    t0 = _time.time()
    tasks = []
    for nmin, nmax, maxf in PLAN[tier]:
        for tree in skeletons(nmin, nmax):
            for ivar in ((0, 1) if has_variant(tree) else (0,)):
                tasks.append((tree, ivar, maxf))
    tasks.sort(key=lambda t: -len(repr(t[0])) * t[2])
    results = harness.pmap(work, tasks)
    viols = []
    evaluations = 0
    outcomes = collections.Counter()
    import re
    for r in sorted(results, key=lambda r: len(r['desc'])):
        evaluations += r['evaluations']
        outcomes.update(r['outcomes'])
        for v in r['found']:
            lab = ' + '.join(re.sub(r'n\d{3}|\d+', '_', l) for l in v['faults'])
            viols.append(harness.Violation(
                'C12:%s:%s' % (v['kind'], lab[:90]),
                'C12 %s: %s (base chart %s)' % (v['kind'], v['detail'], r['desc']),
                {'check': 'C12', 'task': schemes._jsonable(r['task']), 'faults': v['faults'], 'detail': v['detail']}))
    cov = {
        'evaluations': evaluations, 'distinct_nontrivial': evaluations - len(results),
        'programs': len(results), 'fault_positions_total': sum(r['nfaults'] for r in results),
        'outcomes': dict(outcomes), 'exhaustive': True,
        'bounds': [{'states_min': a, 'states_max': b, 'max_simultaneous_faults': f} for a, b, f in PLAN[tier]],
        'samples': [{'base chart': r['desc'], 'single faults': r['nfaults'], 'documents tried': r['evaluations']}
                    for r in harness.pick_samples(results, seed, 3)],
        'rule': 'every skeleton chart (all field kinds) as a valid base document; fault operators: duplicate name '
                '(every ordered pair), missing name, unknown key (statechart/state/transition/contract item), '
                'unknown type, unknown priority word, transitions on final/history states, unknown target, history '
                'under orthogonal / as root, initial = itself/grandchild/uncle/unknown, memory = '
                'itself/parent/non-sibling/unknown, both states and parallel states, missing root state/statechart; '
                'each at every applicable position, singly and in all non-overlapping pairs (triples of distinct '
                'kinds where stated); every faulty document is distinct and counts as non-trivial',
    }
    return harness.finish('C12', tier, seed, 'fault_enumeration', cov, viols, [
        'documents that are merely odd (initial on a basic state, children under a final state, priority 1.5, '
        'empty names, malformed YAML syntax) are not in the fault alphabet',
        'faulty documents are serialised as JSON (a YAML subset) to keep import the dominant cost'], t0)


def replay(data):
    task = schemes._tupled(data['task'])
    spec = make_spec(task)
    doc = to_doc(spec)
    F = faults_for(doc)
    d = copy.deepcopy(doc)
    for lab in data['faults']:
        f = next(f for f in F if f[0] == lab)
        f[2](d)
    print(json.dumps(d, indent=1)[:3000])
    print('faults :', data['faults'])
    print('import :', try_import(d)[0])
    print('recorded:', data['detail'])
    return 0
