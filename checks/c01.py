"""C01 — transition selection follows the documented step semantics.

Scheme P (DESIGN.md §3.1): every transition-capable state carries internal probe transitions for
event class {eventless, 'e', 'f'} x priority class, each guarded by G(tid, event); navigation
transitions reach every legal configuration.  In every configuration, every pending-event
situation x every guard valuation with <= k true guards is executed on the real interpreter and
compared with refmodel.select."""
import itertools
import time
import collections

from mc import harness, probes
from mc.chartgen import skeletons, flatten, add_scheme_P, describe, build_api, build_api_moved
from mc.refmodel import Model

from sismic.interpreter import Interpreter
from sismic.model import Event, InternalEvent
from sismic.exceptions import NonDeterminismError, ConflictingTransitionsError

PLAN = {
    # (nmin, nmax, k, priorities)
    'quick': [(2, 4, 3, (-1, 0, 1)), (5, 5, 2, (0, 1))],
    'thorough': [(2, 5, 3, (-1, 0, 1)), (6, 6, 2, (0, 1))],
}
# the last one leaves a never-due internal event behind: it comes last for every configuration
SITUATIONS = ('none', 'ext-e', 'int-e', 'ext-g', 'int-e+ext-f', 'int-delayed+ext-e')


def queue_situation(it, sit):
    """-> (name of next pending event or None, the event object that must be consumed)"""
    if sit == 'none':
        return None, None
    if sit == 'ext-e':
        ev = Event('e', k=7)
        it.queue(ev)
        return 'e', ev
    if sit == 'int-e':
        ev = InternalEvent('e', k=7)
        it.queue(ev)
        return 'e', ev
    if sit == 'ext-g':
        ev = Event('g', k=7)
        it.queue(ev)
        return 'g', ev
    if sit == 'int-e+ext-f':
        it.queue(Event('f', k=8))
        ev = InternalEvent('e', k=7)
        it.queue(ev)
        return 'e', ev
    if sit == 'int-delayed+ext-e':
        # an internal event that is not due yet must not hide the external event that is
        it.queue(InternalEvent('late', delay=1000))
        ev = Event('e', k=7)
        it.queue(ev)
        return 'e', ev
    raise ValueError(sit)


def same_text(spec):
    """one eventless probe guard is spelled exactly like a piece of code that was *executed* before (the entry code
    of the root state): whether a text is a guard or an action is decided by where it stands, not by its spelling"""
    for t in spec['transitions']:
        if t.get('event') is None and t.get('guard') == 'G(%d, event)' % t['tid']:
            t['guard'] = 'G(%d, None)' % t['tid']       # an eventless guard sees no event anyway
            root = next(s for s in spec['states'] if s['parent'] is None)
            root['on_entry'] = t['guard']
            return


def work(task):
    tree, scheme, k, prios = task[:4]
    skip = task[4] if len(task) > 4 else None
    moved = len(task) > 5 and task[5] == 'moved'
    spec = flatten(tree, scheme, probes=False)
    spec, navs = add_scheme_P(spec, prios=prios, skip=skip)
    same_text(spec)
    m = Model(spec)
    sc, objs = (build_api_moved if moved else build_api)(spec)
    tid_of = {id(o): i for i, o in enumerate(objs)}
    res = {'states': 0, 'transitions': 0, 'outcomes': collections.Counter(), 'violations': [],
           'desc': describe(spec), 'task': task, 'nviol': 0}

    def mk(hist):
        it = Interpreter(sc, initial_context=probes.CONTEXT())
        it.execute_once()
        for nv in hist:
            it.queue(nv)
            it.execute_once()
        return it

    # all configurations reachable through navigation == all legal configurations
    it = mk(())
    seen = {frozenset(it.configuration): ()}
    fr = collections.deque([()])
    while fr:
        h = fr.popleft()
        for nv in navs:
            it = mk(h + (nv,))
            key = frozenset(it.configuration)
            if key not in seen:
                seen[key] = h + (nv,)
                fr.append(h + (nv,))
    res['states'] = len(seen)

    def viol(conf, sit, val, msg):
        res['nviol'] += 1
        if len(res['violations']) < 20:
            res['violations'].append({'conf': sorted(conf), 'situation': sit, 'val': list(val),
                                      'detail': msg, 'nav': list(seen[frozenset(conf)])})

    for conf, h in seen.items():
        it = mk(h)
        cands = [i for i, tr in enumerate(m.trans) if tr['source'] in conf and tr.get('guard')]
        vals = [()]
        for r in range(1, k + 1):
            vals += list(itertools.combinations(cands, r))
        for sit in SITUATIONS:
            for val in vals:
                probes.VAL.clear()
                probes.VAL.update(val)
                probes.reset()
                pending, pev = queue_situation(it, sit)
                fired, evless = m.select(conf, pending, set(val))
                cls = m.classify(fired)
                res['transitions'] += 1
                step = exc = None
                try:
                    step = it.execute_once()
                except (NonDeterminismError, ConflictingTransitionsError) as e:
                    exc = e
                except Exception as e:
                    exc = e
                    viol(conf, sit, val, 'unexpected %s: %s' % (type(e).__name__, str(e)[:80]))
                gseen = list(probes.GSEEN)
                probes.VAL.clear()
                if cls != 'ok':
                    res['outcomes']['multi-transition (C04 domain): ' +
                                    (type(exc).__name__ if exc else 'step')] += 1
                elif exc is not None:
                    res['outcomes']['error'] += 1
                    if isinstance(exc, (NonDeterminismError, ConflictingTransitionsError)):
                        viol(conf, sit, val, 'unexpected %s for selection %s'
                             % (type(exc).__name__, [m.trans[i] for i in fired]))
                else:
                    if not fired and pending is None:
                        res['outcomes']['nothing'] += 1
                        if step is not None:
                            viol(conf, sit, val, 'nothing enabled, nothing pending, but step %s' % step)
                    elif step is None:
                        viol(conf, sit, val, 'expected %s, got no step' % [m.trans[i] for i in fired])
                    else:
                        got = sorted(tid_of[id(t)] for t in step.transitions)
                        if got != sorted(fired):
                            viol(conf, sit, val, 'fired %s, documented selection %s'
                                 % ([_td(m, i) for i in got], [_td(m, i) for i in sorted(fired)]))
                        if fired and evless:
                            res['outcomes']['eventless fired'] += 1
                            if step.event is not None:
                                viol(conf, sit, val, 'eventless step consumed %s' % step.event)
                        else:
                            res['outcomes']['event step' if fired else 'empty step'] += 1
                            if step.event is not pev:
                                viol(conf, sit, val, 'step carries %r, pending event was %r'
                                     % (step.event, pev))
                        for tid, ev in gseen:
                            if m.trans[tid].get('event') is None:
                                if ev is not None:
                                    viol(conf, sit, val, 'eventless guard of %s saw %r' % (_td(m, tid), ev))
                            elif ev is not pev:
                                viol(conf, sit, val, 'guard of %s saw %r, consumed event is %r'
                                     % (_td(m, tid), ev, pev))
                        for tid in fired:
                            if tid not in [g[0] for g in gseen]:
                                viol(conf, sit, val, 'guard of fired %s never evaluated' % _td(m, tid))
                # the pending event must still be there iff it was not consumed
                consumed = (exc is None and step is not None and step.event is not None)
                drained = []
                while True:
                    try:
                        d = it.execute_once()
                    except Exception as e:
                        viol(conf, sit, val, 'drain raised %s' % type(e).__name__)
                        break
                    if d is None:
                        break
                    drained.append(d.event)
                    if len(drained) > 4:
                        break
                if cls == 'ok' and exc is None:
                    exp_left = []
                    if pev is not None and not consumed:
                        exp_left.append(pev)
                    if sit == 'int-e+ext-f':
                        exp_left.append('f')
                    got_left = [('f' if (e is not None and e.name == 'f') else e) for e in drained]
                    if len(got_left) != len(exp_left) or any(
                            (a != b if isinstance(b, str) else a is not b)
                            for a, b in zip(got_left, exp_left)):
                        viol(conf, sit, val, 'events left after the step: %r, expected %r'
                             % (drained, exp_left))
                if frozenset(it.configuration) != conf:
                    viol(conf, sit, val, 'internal probes moved the configuration to %s'
                         % it.configuration)
                    it = mk(h)
    return res


def _td(m, tid):
    tr = m.trans[tid]
    return '%s[%s,prio %s]#%d' % (tr['source'], tr.get('event') or 'eventless', tr.get('priority'), tid)


def run(tier, seed):
    t0 = time.time()
    tasks = []
    for nmin, nmax, k, prios in PLAN[tier]:
        for tree in skeletons(nmin, nmax, history=False, final=False):
            for scheme in ('asc', 'desc'):
                tasks.append((tree, scheme, k, prios))
    # short names made of each other's characters
    for tree in skeletons(3, 4, history=False, final=False):
        tasks.append((tree, 'overlap', 2, (0, 1)))
    # sparse variants: every other state (in pre-order) carries no probe, so that inner-first has to look
    # past intermediate states without any candidate transition
    for tree in skeletons(3, 5 if tier == 'quick' else 6, history=False, final=False):
        for skip in (0, 1):
            tasks.append((tree, 'asc', 2, (0, 1), skip))
    # the same charts restructured with move_state (nested composite states first live under the root): selection
    # relies on depths and ancestors that the statechart must keep right however it was built
    for tree in skeletons(4, 5 if tier == 'quick' else 6, history=False, final=False):
        if repr(tree).count("'C'") + repr(tree).count("'O'") >= 3:
            for scheme in ('asc', 'desc'):
                tasks.append((tree, scheme, 2, (0, 1), None, 'moved'))
    tasks.sort(key=lambda t: -len(repr(t[0])))
    results = harness.pmap(work, tasks, chunksize=1)
    agg = harness.Agg()
    viols = []
    for r in sorted(results, key=lambda r: len(r['desc'])):
        agg.add(r, program=r['desc'])
        for v in r['violations']:
            from mc.schemes import norm, _jsonable
            viols.append(harness.Violation(
                'C01:' + norm(v['detail']),
                'C01 %s conf=%s situation=%s true guards=%s: %s' % (
                    r['desc'], v['conf'], v['situation'], v['val'], v['detail']),
                {'check': 'C01', 'task': _jsonable(r['task']), **v}))
    samples = [{'chart': r['desc'], 'configurations': r['states'], 'executions': r['transitions'],
                'outcomes': dict(r['outcomes'])} for r in harness.pick_samples(results, seed, 3)]
    cov = {
        'programs': agg.programs, 'states': agg.states, 'transitions': agg.transitions,
        'traces_validated_against_impl': agg.transitions, 'exhaustive': True,
        'bounds': [{'states_min': a, 'states_max': b, 'k_true_guards': k, 'priorities': list(p)}
                   for a, b, k, p in PLAN[tier]],
        'pending_situations': list(SITUATIONS),
        'outcomes': dict(agg.outcomes), 'samples': samples,
        'rule': 'all skeletons without history/final x 2 naming schemes, probe scheme P; every legal '
                'configuration (reached by navigation); every pending situation x every guard valuation '
                'with <= k true guards among active-source probes; oracle refmodel.select + guard '
                'visibility + event still pending iff not consumed',
    }
    return harness.finish('C01', tier, seed, 'model_checking', cov, viols, [
        'priorities only compared for order: {-1,0,1} realise every pattern among <= 3 transitions',
        'event names only compared for equality: classes eventless / matching / non-matching',
        'multi-transition selections that must raise are C04\'s subject and only counted here'], t0)


def replay(data):
    from mc.schemes import _tupled
    task = _tupled(data['task'])
    tree, scheme, k, prios = task[:4]
    spec = flatten(tree, scheme, probes=False)
    spec, navs = add_scheme_P(spec, prios=prios, skip=task[4] if len(task) > 4 else None)
    same_text(spec)
    m = Model(spec)
    sc, objs = (build_api_moved if len(task) > 5 and task[5] == 'moved' else build_api)(spec)
    it = Interpreter(sc, initial_context=probes.CONTEXT())
    it.execute_once()
    for nv in data['nav']:
        it.queue(nv)
        it.execute_once()
    print('chart   :', describe(spec))
    print('config  :', it.configuration)
    probes.VAL.clear()
    probes.VAL.update(data['val'])
    probes.reset()
    pending, pev = queue_situation(it, data['situation'])
    print('pending :', data['situation'], ' true guards:', [_td(m, i) for i in data['val']])
    fired, evless = m.select(set(data['conf']), pending, set(data['val']))
    print('expected:', [_td(m, i) for i in fired], 'eventless' if evless else '')
    try:
        step = it.execute_once()
        print('observed:', step)
    except Exception as e:
        print('observed:', type(e).__name__, e)
    print('guards evaluated:', probes.GSEEN)
    print('recorded:', data['detail'])
    return 0
