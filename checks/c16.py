"""C16 — structural editing keeps a statechart sound; failed edits change nothing.

BFS over all sequences of editing operations (valid and invalid arguments) up to a depth, from
three initial statecharts, on the real Statechart; a plain-dict reference editor written from the
docstrings predicts outcome (success / StatechartError / ValueError) and post-structure."""
import collections
import copy
import time as _time

from mc import harness

from sismic.model import (Statechart, BasicState, CompoundState, OrthogonalState, FinalState,
                          ShallowHistoryState, DeepHistoryState, Transition)
from sismic.exceptions import StatechartError

DEPTH = {'quick': 2, 'thorough': 3}
KINDS = {'B': BasicState, 'C': CompoundState, 'O': OrthogonalState, 'F': FinalState,
         'HS': ShallowHistoryState, 'HD': DeepHistoryState}


def kind_of(o):
    for k, c in KINDS.items():
        if type(o) is c:
            return k
    return '?'


class Ref:
    """reference editor over plain dicts: st name -> {kind,parent,initial,memory}; tr [src,tgt,ev]"""

    def __init__(self):
        self.st = {}
        self.tr = []

    def clone(self):
        r = Ref()
        r.st = copy.deepcopy(self.st)
        r.tr = copy.deepcopy(self.tr)
        return r

    def children(self, n):
        return [x for x, s in self.st.items() if s['parent'] == n]

    def desc(self, n):
        r = []
        for c in self.children(n):
            r.append(c)
            r += self.desc(c)
        return r

    def root(self):
        for n, s in self.st.items():
            if s['parent'] is None:
                return n
        return None

    def obs(self):
        return (tuple(sorted((n, s['kind'], s['parent'] or '', s.get('initial') or '', s.get('memory') or '')
                             for n, s in self.st.items())),
                tuple(sorted((a, b or '', c or '') for a, b, c in self.tr)))

    # every op returns None on success or the expected exception class; failed ops change nothing
    def add_state(self, kind, name, parent):
        if name in self.st:
            return StatechartError
        if not parent:
            if self.root():
                return StatechartError
            if kind in ('HS', 'HD'):
                return StatechartError      # a history state cannot be the root (was defect F4)
        else:
            if parent not in self.st:
                return StatechartError
            if self.st[parent]['kind'] not in ('C', 'O'):
                return StatechartError
            if kind in ('HS', 'HD') and self.st[parent]['kind'] != 'C':
                return StatechartError
        self.st[name] = dict(kind=kind, parent=parent or None, initial=None, memory=None)

    def remove_state(self, name):
        if name not in self.st:
            return StatechartError
        gone = [name] + self.desc(name)
        self.tr = [t for t in self.tr if t[0] not in gone and t[1] not in gone]
        for g in gone:
            del self.st[g]
        for s in self.st.values():
            if s.get('initial') in gone:
                s['initial'] = None
            if s.get('memory') in gone:
                s['memory'] = None

    def rename_state(self, old, new):
        if old == new:
            return None
        if new in self.st:
            return StatechartError
        if old not in self.st:
            return StatechartError
        self.st[new] = self.st.pop(old)
        for s in self.st.values():
            for f in ('parent', 'initial', 'memory'):
                if s.get(f) == old:
                    s[f] = new
        for t in self.tr:
            if t[0] == old:
                t[0] = new
            if t[1] == old:
                t[1] = new

    def move_state(self, name, newp):
        if name not in self.st or newp not in self.st:
            return StatechartError
        if newp in [name] + self.desc(name):
            return StatechartError
        self.st[name]['parent'] = newp
        if self.st[name]['kind'] in ('HS', 'HD'):
            self.st[name]['memory'] = None
        for s in self.st.values():
            if s.get('initial') == name:
                s['initial'] = None
            if s.get('memory') == name:
                s['memory'] = None

    def add_transition(self, src, tgt, ev):
        if src not in self.st:
            return StatechartError
        if self.st[src]['kind'] not in ('B', 'C', 'O'):
            return StatechartError
        if tgt is not None and tgt not in self.st:
            return StatechartError
        self.tr.append([src, tgt, ev])

    def remove_transition(self, src, tgt, ev):
        if [src, tgt, ev] not in self.tr:
            return StatechartError
        self.tr.remove([src, tgt, ev])

    def rotate_transition(self, key, ns, nt):
        if ns == '' and nt == '':
            return ValueError
        if list(key) not in self.tr:
            return StatechartError
        t = self.tr[self.tr.index(list(key))]
        if ns != '':
            if ns not in self.st:
                return StatechartError
            if self.st[ns]['kind'] not in ('B', 'C', 'O'):
                return StatechartError
        if nt != '' and nt is not None and nt not in self.st:
            return StatechartError
        if ns != '':
            t[0] = ns
        if nt != '':
            t[1] = nt


def obs_impl(sc):
    """full public observation of a Statechart + structural soundness problems found"""
    problems = []
    sts = []
    names = sc.states
    roots = [n for n in names if sc.parent_for(n) is None]
    if names and (len(roots) != 1 or sc.root != roots[0]):
        problems.append('roots: %s, root property: %s' % (roots, sc.root))
    if not names and sc.root is not None:
        problems.append('no state at all, but the root property says %s' % sc.root)
    for n in names:
        o = sc.state_for(n)
        if o.name != n:
            problems.append('state registered as %s is named %s' % (n, o.name))
        kids = sc.children_for(n)
        if set(kids) != {c for c in names if sc.parent_for(c) == n} or len(kids) != len(set(kids)):
            problems.append('children_for(%s)=%s inconsistent with parent_for' % (n, kids))
        p = sc.parent_for(n)
        if p is not None and p not in names:
            problems.append('parent %s of %s does not exist' % (p, n))
        # reachable from the root (one tree)?
        seen, x = set(), n
        while x is not None and x not in seen:
            seen.add(x)
            x = sc.parent_for(x) if x in names else None
        if x is not None:
            problems.append('cycle through %s' % n)
        # derived queries must agree with parent_for / children_for
        chain = []
        x = sc.parent_for(n)
        while x is not None and x in names and len(chain) <= len(names):
            chain.append(x)
            x = sc.parent_for(x)
        if list(sc.ancestors_for(n)) != chain:
            problems.append('ancestors_for(%s) = %s, parent chain is %s' % (n, sc.ancestors_for(n), chain))
        if sc.depth_for(n) != len(chain) + 1:
            problems.append('depth_for(%s) = %s, parent chain has %d states' % (n, sc.depth_for(n), len(chain)))
        below = set()
        todo = list(kids)
        while todo:
            y = todo.pop()
            if y not in below:
                below.add(y)
                todo += list(sc.children_for(y))
        if set(sc.descendants_for(n)) != below or len(sc.descendants_for(n)) != len(below):
            problems.append('descendants_for(%s) = %s, children closure is %s' % (n, sc.descendants_for(n), sorted(below)))
        ini = getattr(o, 'initial', None)
        mem = getattr(o, 'memory', None)
        if ini is not None and ini not in kids:
            problems.append('initial %s of %s is not one of its children' % (ini, n))
        if mem is not None and (mem not in names or mem == n or sc.parent_for(mem) != p):
            problems.append('memory %s of %s is not a sibling' % (mem, n))
        sts.append((n, kind_of(o), p or '', ini or '', mem or ''))
    trs = []
    for t in sc.transitions:
        if t.source not in names:
            problems.append('transition from unknown state %s' % t.source)
        elif kind_of(sc.state_for(t.source)) not in ('B', 'C', 'O'):
            problems.append('transition from %s which cannot own transitions' % t.source)
        if t.target is not None and t.target not in names:
            problems.append('transition to unknown state %s' % t.target)
        if (t.target is None) != t.internal:
            problems.append('internal flag inconsistent for %s' % t)
        trs.append((t.source, t.target or '', _code(t)))
    for n in names:
        if sorted(map(id, sc.transitions_from(n))) != sorted(id(t) for t in sc.transitions if t.source == n):
            problems.append('transitions_from(%s) disagrees with the transition list' % n)
        if sorted(map(id, sc.transitions_to(n))) != sorted(
                id(t) for t in sc.transitions if t.target == n or (t.target is None and t.source == n)):
            problems.append('transitions_to(%s) disagrees with the transition list' % n)
        if sorted(sc.events_for(n)) != sorted({t.event for t in sc.transitions if t.source == n and t.event}):
            problems.append('events_for(%s) = %s disagrees with the transition list' % (n, sc.events_for(n)))
    evs = sorted({t.event for t in sc.transitions if t.event})
    if sorted(sc.events_for()) != evs or sorted(sc.events_for(list(names))) != evs:
        problems.append('events_for() = %s, events on transitions: %s' % (sc.events_for(), evs))
    for e in sorted(set(evs + [x[:-1] for x in evs if len(x) > 1] + [x + 'y' for x in evs] + ['no-such-event'])):
        if sorted(map(id, sc.transitions_with(e))) != sorted(id(t) for t in sc.transitions if t.event == e):
            problems.append('transitions_with(%s) disagrees with the transition list' % e)
    if names:
        want = sorted(l for l in names if not any(d in names for d in sc.descendants_for(l)))
        if sorted(sc.leaf_for(names)) != want:
            problems.append('leaf_for(all states) = %s, expected %s' % (sorted(sc.leaf_for(names)), want))
    return (tuple(sorted(sts)), tuple(sorted(trs))), problems


INITIALS = {
    'mixed': ([('add_state', 'C', 'r', None), ('add_state', 'C', 'c', 'r'), ('add_state', 'B', 'a', 'c'),
               ('add_state', 'B', 'b', 'c'), ('add_state', 'HS', 'h', 'c'), ('add_state', 'O', 'o', 'r'),
               ('add_state', 'B', 'p', 'o'), ('add_state', 'F', 'f', 'r'),
               ('add_transition', 'a', 'b', 'x'), ('add_transition', 'a', None, 'xy'),
               ('add_transition', 'c', 'f', 'z'), ('add_transition', 'p', 'h', 'w')],
              {'r': ('initial', 'c'), 'c': ('initial', 'a'), 'h': ('memory', 'b')}),
    'deep': ([('add_state', 'C', 'r', None), ('add_state', 'C', 'c', 'r'), ('add_state', 'HD', 'h', 'r'),
              ('add_state', 'O', 'o', 'c'), ('add_state', 'B', 'p', 'o'), ('add_state', 'B', 'q', 'o'),
              ('add_transition', 'p', None, 'x'), ('add_transition', 'q', 'h', 'x'),
              ('add_transition', 'o', 'c', None), ('add_transition', 'p', 'p', 'x')],
             {'r': ('initial', 'c'), 'c': ('initial', 'o'), 'h': ('memory', 'c')}),
    'twohist': ([('add_state', 'C', 'r', None), ('add_state', 'C', 'w', 'r'), ('add_state', 'B', 'a', 'w'),
                 ('add_state', 'B', 'b', 'w'), ('add_state', 'HS', 'h1', 'w'), ('add_state', 'HD', 'h2', 'w'),
                 ('add_state', 'C', 'o', 'r'), ('add_state', 'B', 'x', 'o'),
                 ('add_transition', 'x', 'h1', 'p'), ('add_transition', 'x', 'h2', 'q'), ('add_transition', 'a', 'b', 'n')],
                {'r': ('initial', 'w'), 'w': ('initial', 'a'), 'o': ('initial', 'x'), 'h1': ('memory', 'a'),
                 'h2': ('memory', 'a')}),
    'tiny': ([('add_state', 'C', 'r', None), ('add_state', 'B', 'a', 'r'),
              ('add_transition', 'a', None, 'x'), ('add_transition', 'r', 'a', 'x')],
             {'r': ('initial', 'a')}),
}


def _ev(code):
    """event field of an op: 'x', 'x!1' (event x, priority 1) or 'x?g' (event x, guard g) -> (event, priority, guard)"""
    if code and '!' in code:
        name, prio = code.split('!')
        return name, int(prio), None
    if code and '?' in code:
        name, guard = code.split('?')
        return name, 0, guard
    return code, 0, None


def _code(t):
    return (t.event or '') + ('!%d' % t.priority if t.priority else '') + ('?%s' % t.guard if t.guard else '')


def _mk(src, tgt, code):
    ev, prio, guard = _ev(code)
    return Transition(src, tgt, event=ev, priority=prio, guard=guard)


def apply_impl(sc, op):
    k = op[0]
    if k == 'add_state':
        _, kind, name, parent = op
        sc.add_state(KINDS[kind](name), parent)
    elif k == 'remove_state':
        sc.remove_state(op[1])
    elif k == 'rename_state':
        sc.rename_state(op[1], op[2])
    elif k == 'move_state':
        sc.move_state(op[1], op[2])
    elif k == 'add_transition':
        sc.add_transition(_mk(op[1], op[2], op[3]))
    elif k == 'remove_transition':
        sc.remove_transition(_mk(op[1], op[2], op[3]))
    elif k == 'rotate_transition':
        cands = [t for t in sc.transitions if (t.source, t.target, _code(t) or None) == tuple(op[1])]
        t = cands[0] if cands else _mk(*op[1])
        kw = {}
        if op[2] != '':
            kw['new_source'] = op[2]
        if op[3] != '':
            kw['new_target'] = op[3]
        sc.rotate_transition(t, **kw)


def apply_ref(ref, op):
    return getattr(ref, op[0])(*op[1:])


def build(chart, hist):
    base, props = INITIALS[chart]
    sc = Statechart('t')
    ref = Ref()
    for op in base:
        apply_impl(sc, op)
        assert apply_ref(ref, op) is None
    for n, (f, v) in props.items():
        setattr(sc.state_for(n), f, v)
        ref.st[n][f] = v
    obs_impl(sc)                # the initial chart is inspected too before it is edited
    for op in hist:
        exp = apply_ref(ref.clone(), op)
        try:
            apply_impl(sc, op)
        except (StatechartError, ValueError):
            pass
        if exp is None:
            apply_ref(ref, op)
        try:
            obs_impl(sc)        # a user inspects the statechart between two edits (exercises every query)
        except Exception:
            pass
    return sc, ref


def ops_for(ref):
    names = sorted(ref.st)
    first = names[0] if names else 'new'
    ops = []
    for kind in ('B', 'C', 'HS'):
        for name in ('new', first, 'a', 'p'):       # 'a' / 'p': names that may have been removed before
            for parent in names + ['zz', None]:
                ops.append(('add_state', kind, name, parent))
    for n in names + ['zz']:
        ops.append(('remove_state', n))
    for n in names + ['zz']:
        for m in ('new', n, first):
            ops.append(('rename_state', n, m))
    for n in names + ['zz']:
        for m in names + ['zz']:
            ops.append(('move_state', n, m))
    for n in names + ['zz']:
        for m in names[:3] + [None, 'zz', '']:      # '' is not None: it names a state that does not exist
            ops.append(('add_transition', n, m, 'k'))
    seen_t = set()
    for t in ref.tr:
        if tuple(t) in seen_t:
            continue
        seen_t.add(tuple(t))
        ops.append(('remove_transition', t[0], t[1], t[2]))
        ops.append(('add_transition', t[0], t[1], t[2]))       # a second, equal-looking transition
        if t[2] and '!' not in t[2] and '?' not in t[2]:
            ops.append(('add_transition', t[0], t[1], t[2] + '?g'))     # a twin that differs only in its guard
            ops.append(('remove_transition', t[0], t[1], t[2] + '?h'))  # never added: differs from t in its guard only
            ops.append(('add_transition', t[0], t[1], t[2] + '!1'))     # a twin that differs only in its priority
            # a transition that was never added and differs from a registered one only in its priority
            ops.append(('rotate_transition', (t[0], t[1], t[2] + '!7'), names[0], ''))
            ops.append(('remove_transition', t[0], t[1], t[2] + '!7'))
        for ns in [''] + names[:4] + ['zz']:
            for nt in ['', None] + names[:3] + ['zz']:
                ops.append(('rotate_transition', tuple(t), ns, nt))
    ops.append(('remove_transition', 'a', 'a', 'nope'))
    ops.append(('rotate_transition', ('a', 'a', 'nope'), first, ''))
    return ops


def expand(task):
    (chart, hist), last = task
    res = {'transitions': 0, 'outcomes': collections.Counter(), 'violations': [], 'nviol': 0,
           'children': []}
    if last:
        return res
    _, ref0 = build(chart, hist)

    def viol(op, kind, msg):
        res['nviol'] += 1
        if len(res['violations']) < 6:
            res['violations'].append({'chart': chart, 'hist': [list(o) for o in hist], 'op': list(op),
                                      'kind': kind, 'detail': msg})
    for op in ops_for(ref0):
        sc, ref = build(chart, hist)
        before, pb_before = obs_impl(sc)
        r2 = ref.clone()
        exp = apply_ref(r2, op)
        got = None
        try:
            apply_impl(sc, op)
        except (StatechartError, ValueError) as e:
            got = type(e)
        except Exception as e:
            got = type(e)
        res['transitions'] += 1
        res['outcomes']['%s:%s' % (op[0], 'ok' if got is None else got.__name__)] += 1
        try:
            after, problems = obs_impl(sc)
        except Exception as e:
            viol(op, 'broken', 'statechart cannot be inspected after the call: %s' % e)
            continue
        ok = True
        if got is not exp:
            ok = False
            viol(op, 'outcome', '%s: expected %s, got %s' % (op[0], getattr(exp, '__name__', 'success'),
                                                            getattr(got, '__name__', 'success')))
        elif exp is None and after != r2.obs():
            ok = False
            viol(op, 'effect', '%s: documented effect %s, observed %s'
                 % (op[0], _diff(r2.obs(), after), _diff(after, r2.obs())))
        elif exp is not None and after != before:
            ok = False
            viol(op, 'atomicity', '%s raised %s but changed the statechart: %s -> %s'
                 % (op[0], got.__name__, _diff(before, after), _diff(after, before)))
        if got is not None:
            for pb in problems:
                if pb not in pb_before:
                    ok = False
                    viol(op, 'atomicity', '%s raised %s but left the statechart unsound: %s' % (op[0], got.__name__, pb))
        if got is None:
            for pb in problems:
                ok = False
                viol(op, 'soundness', '%s: %s' % (op[0], pb))
            try:
                sc.validate()
            except StatechartError as e:
                ok = False
                viol(op, 'soundness', '%s: validate() fails afterwards: %s' % (op[0], e))
        if ok and exp is None:
            res['children'].append(((chart, r2.obs()), (chart, hist + (op,))))
    return res


def _diff(a, b):
    return sorted(set(a[0]) - set(b[0])) + sorted(set(a[1]) - set(b[1]))


def run(tier, seed):
    t0 = _time.time()
    depth = DEPTH[tier]
    roots = []
    for c in INITIALS:
        sc, ref = build(c, ())
        assert obs_impl(sc)[0] == ref.obs()
        roots.append(((c, ref.obs()), (c, ())))
    agg = harness.level_bfs(expand, roots, depth)
    import re
    viols = []
    for v in sorted(agg.violations, key=lambda v: len(v['hist'])):
        sig = 'C16:%s:%s' % (v['kind'], re.sub(r"\(.*", '', v['detail'])[:50])
        viols.append(harness.Violation(sig, 'C16 %s: chart %s after %s, op %s: %s'
                                       % (v['kind'], v['chart'], v['hist'], v['op'], v['detail']),
                                       {'check': 'C16', **v}))
    cov = {
        'programs': len(INITIALS), 'states': agg.states, 'transitions': agg.transitions,
        'traces_validated_against_impl': agg.transitions, 'exhaustive': True, 'state_space_closed': bool(agg.closed), 'depth': depth, 'closed_at_depth': agg.max_depth if agg.closed else None,
        'outcomes': dict(agg.outcomes),
        'samples': [{'initial chart': c, 'construction': [list(map(str, o)) for o in INITIALS[c][0]]}
                    for c in INITIALS],
        'rule': 'BFS over all sequences (to the stated depth) of add/remove/rename/move state and '
                'add/remove/rotate transition with valid and invalid arguments from 3 initial charts; '
                'states deduplicated by canonical structure; outcome, post-structure, soundness invariants '
                'and validate() compared with a reference editor after every call',
    }
    return harness.finish('C16', tier, seed, 'model_checking', cov, viols, [
        'move_state under a non-composite parent is documented to succeed; only the listed invariants are checked',
        'adding a history state as root is not in the alphabet (C12 decides it)'], t0)


def replay(data):
    chart = data['chart']
    hist = [_t(o) for o in data['hist']]
    op = _t(data['op'])
    sc, ref = build(chart, tuple(hist))
    print('before :', obs_impl(sc)[0])
    r2 = ref.clone()
    exp = apply_ref(r2, op)
    try:
        apply_impl(sc, op)
        print('call   :', op, 'succeeded')
    except Exception as e:
        print('call   :', op, 'raised', type(e).__name__, e)
    print('after  :', obs_impl(sc))
    print('expected outcome:', getattr(exp, '__name__', 'success'), ' expected structure:', r2.obs())
    print('recorded:', data['detail'])
    return 0


def _t(o):
    return tuple(_t(x) if isinstance(x, list) else x for x in o)
