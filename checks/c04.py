"""C04 — non-determinism and conflicts are reported, never silently resolved."""
import time

from mc import harness, engine, schemes
from mc.chartgen import skeletons, flatten, add_scheme_S, describe, has_variant

PLAN = {
    # (nmin, nmax, k, eventless twins)
    'quick': [(2, 4, 2, True), (2, 4, 2, 'internal'), (2, 4, 2, 'delayed'), (5, 5, 2, False), (5, 6, '3o', False)],
    'thorough': [(2, 4, 3, 'both'), (2, 5, 2, 'delayed'), (5, 5, 2, 'both'), (5, 6, 3, False), (7, 7, '3o', False)],
}


def make_spec(task):
    tree, scheme, ivar, k, twin = task
    spec = add_scheme_S(flatten(tree, scheme, ivar), eventless_twin=twin in (True, 'both'), counter=True,
                        internal_twin=twin in ('internal', 'both'))
    if twin == 'prio':
        # "a priority can be any integer": the same charts with every transition at priority 2 or 5 per source
        # state (the relative order inside a state is what matters, the refusals must read the same)
        for t in spec['transitions']:
            t['priority'] = 5 if t['target'] is None else 2
    return spec


def work(task):
    spec = make_spec(task)
    R = engine.Runner(spec, 'moved' if task[4] == 'moved' else 'api')
    R.delayed_event = task[4] == 'delayed'
    res = engine.explore(spec, task[3], [engine.oracle_conflict], extra_ops=True, runner=R)
    res['desc'] = describe(spec)
    res['task'] = task
    return res


NESTED = {'quick': (7, 8), 'thorough': (7, 9)}
TWIN_MAX = {'quick': 4, 'thorough': 5}


def twin_work(task):
    """exact twins: two transitions of one state that are equal in every field (two Transition objects, or the
    same entry written twice in YAML).  They are two transitions: when they are enabled the step must be refused."""
    from mc import probes
    from mc.chartgen import Tree, wf_pair, build_api, build_yaml
    from sismic.interpreter import Interpreter
    from sismic.exceptions import NonDeterminismError
    tree = task
    base = flatten(tree, 'asc', 0)
    T = Tree(base)
    res = {'states': 0, 'transitions': 0, 'outcomes': {}, 'violations': [], 'nviol': 0, 'desc': None, 'task': None}
    for s in T.order:
        for t in [None] + list(T.order):
            if not wf_pair(T, s, t):
                continue
            for builder in (build_api, build_yaml):
                spec = dict(base, transitions=[
                    {'tid': i, 'source': s, 'target': t, 'event': 'e', 'guard': None, 'action': "P('ac', 0)",
                     'priority': 0} for i in (0, 1)])
                try:
                    sc, _ = builder(spec)
                    it = Interpreter(sc, initial_context=probes.CONTEXT())
                    it.execute_once()
                    if s not in it.configuration:
                        continue
                    conf = list(it.configuration)
                    n_tr = len(sc.transitions_from(s))
                    outcomes = []
                    for attempt in (1, 2):
                        it.queue('e') if attempt == 1 else None
                        probes.reset()
                        try:
                            outcomes.append(('step', it.execute_once()))
                        except NonDeterminismError:
                            outcomes.append(('NonDeterminismError', None))
                    res['transitions'] += 1
                    problem = None
                    if n_tr != 2:
                        problem = 'the statechart holds %d transitions from %s, two were declared' % (n_tr, s)
                    elif [o[0] for o in outcomes] != ['NonDeterminismError'] * 2:
                        problem = 'two equal transitions %s -> %s are enabled: expected NonDeterminismError twice (the ' \
                                  'event stays pending), got %s' % (s, t, [o[0] if o[1] is None else str(o[1]) for o in outcomes])
                    elif list(it.configuration) != conf or probes.LOG:
                        problem = 'the refused step changed something: configuration %s, code %s' % (it.configuration, probes.LOG)
                except Exception as e:
                    problem = 'unexpected %s: %s' % (type(e).__name__, str(e)[:100])
                if problem:
                    res['nviol'] += 1
                    if len(res['violations']) < 4:
                        res['violations'].append({'category': 'twins', 'hist': None, 'op': ['twins', s, t, builder.__name__],
                                                  'detail': problem})
    res['desc'] = describe(base) + ' [exact twins]'
    res['task'] = ('twins', tree)
    res['outcomes'] = {'exact twins refused': res['transitions'] - res['nviol']}
    return res



def run(tier, seed):
    t0 = time.time()
    tasks = []
    # nested orthogonal states, larger charts: every triple of pairwise-orthogonal sources
    for tree in skeletons(NESTED[tier][0], NESTED[tier][1], history=False, final=False, require='nested-orth'):
        tasks.append((tree, 'asc', 0, '3o', False))
    # charts restructured with move_state after all queries were served once (composite states first live under
    # the root): the conflict test relies on descendants / ancestors / depths that must follow the edit
    for tree in skeletons(5, 6, history=False, final=False):
        r = repr(tree)
        if "'O'" in r and r.count("'C'") + r.count("'O'") >= 3:
            tasks.append((tree, 'asc', 0, 2 if tier == 'quick' else 3, 'moved'))
    for tree in skeletons(2, 4, history=False, final=False):
        tasks.append((tree, 'asc', 0, 2, 'prio'))
    for nmin, nmax, k, twin in PLAN[tier]:
        for tree in skeletons(nmin, nmax, history=False, final=False):
            for scheme in ('asc', 'desc'):
                for ivar in ((0, 1) if has_variant(tree) else (0,)):
                    tasks.append((tree, scheme, ivar, k, twin))
    tasks.sort(key=lambda t: -len(repr(t[0])) * (2 if t[4] else 1) * (3 if t[3] == 3 else 1))
    results = harness.pmap(work, tasks)
    results += harness.pmap(twin_work, list(skeletons(2, TWIN_MAX[tier], history=False, final=False)))
    agg = harness.Agg()
    viols = []
    for r in sorted(results, key=lambda r: len(r['desc'])):
        agg.add(r, program=r['desc'])
        for v in r['violations']:
            viols.append(harness.Violation(
                'C04:%s:%s' % (v['category'], schemes.norm(v['detail'])),
                'C04 %s in %s after %s op %s: %s' % (v['category'], r['desc'], v['hist'], v['op'],
                                                      v['detail']),
                {'check': 'C04', 'task': schemes._jsonable(r['task']), 'hist': v['hist'],
                 'op': v['op'], 'category': v['category'], 'detail': v['detail'], 'desc': r['desc']}))
    samples = [{'chart': r['desc'], 'states': r['states'], 'executions': r['transitions'],
                'outcomes': dict(r['outcomes'])} for r in harness.pick_samples(results, seed, 3)]
    cov = {
        'programs': agg.programs, 'states': agg.states, 'transitions': agg.transitions,
        'traces_validated_against_impl': agg.transitions, 'exhaustive': agg.exhaustive,
        'outcomes': dict(agg.outcomes), 'samples': samples,
        'bounds': [{'states_min': a, 'states_max': b, 'k': k, 'eventless_twins': tw}
                   for a, b, k, tw in PLAN[tier]],
        'rule': 'skeletons without history/final x naming x initial variants, saturated scheme S (one '
                'event-triggered and, where stated, one eventless transition per well-formed pair); in '
                'every reachable configuration every set of <= k simultaneously true guards; expected '
                'class (ok / NonDeterminismError / ConflictingTransitionsError) from the reference '
                'selection; on error: configuration, code log, context untouched and event still pending',
    }
    return harness.finish('C04', tier, seed, 'model_checking', cov, viols, [
        'a target equal to the source\'s own region state is a don\'t-care (either no error or '
        'ConflictingTransitionsError accepted)',
        'when both error conditions hold among >= 3 transitions either error is accepted'], t0)


def replay(data):
    from mc import probes
    task = schemes._tupled(data['task'])
    if task[0] == 'twins':
        r = twin_work(task[1])
        print(r['desc'], r['violations'] or 'no problem')
        return 0
    spec = make_spec(task)
    R = engine.Runner(spec, 'moved' if task[4] == 'moved' else 'api')
    it = R.new_interpreter()
    it.execute_once()
    print('chart   :', describe(spec))
    for op in [schemes._tupled(o) for o in (data['hist'] or [])] + [schemes._tupled(data['op'])]:
        probes.reset()
        print('config  :', it.configuration)
        if op[0] == 'E':
            print('op      : event e, true guards', [(i, engine._tdesc(R.model, i),
                                                     R.model.trans[i]['event']) for i in op[1]])
        else:
            print('op      :', op)
        print('  ->', R.apply(it, op), probes.LOG)
    print('recorded:', data['category'], data['detail'])
    return 0
