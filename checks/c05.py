"""C05 — event queues: one event per step, internal first, FIFO, delays respected.

Explicit-state BFS over interleavings of queue() (external and internal, delays 0/1/2), clock
advances, execute_once with/without an enabled eventless transition, on three small 'sink' charts
whose fragments also send() immediate and delayed internal events.  Every event carries a unique
serial.  A reference model of the two queues (sorted lists of (due, seq)) predicts exactly which
event each macro step consumes; at every newly discovered state the interpreter is drained and
every queued event must have been consumed exactly once, in the predicted order."""
import collections
import copy
import pickle
import time as _time

from mc import harness, probes

from sismic.model import (Statechart, CompoundState, BasicState, OrthogonalState, Transition, Event,
                          InternalEvent)
from sismic.interpreter import Interpreter

DEPTH = {'quick': 6, 'thorough': 8}
CAP = 3   # max entries per queue while exploring

# event name -> list of (sent name, delay) produced by the handler; names not listed are ignored
CHARTS = {
    'flat': {'x': [], 'xs': [('ix', 0)], 'xd': [('iy', 2)], 'ix': [], 'xx': [('ix', 0), ('iy', 1)],
             'xc': [('iq', 'c2')], 'iq': [],    # 'c2': send('iq', s=0, delay=2) - constant parameters, equal to the
                                               # external Event('iq', s=0, delay=2) queued by op ('qc',)
             'xz': [('ix', 0), ('iz', '0!'), ('iw', 0)]},     # '0!' = an explicit delay=0
    'orth': {'x': [], 'xs': [('ix', 0)], 'xd': [('iy', 2)], 'ix': [('iz', 0)]},
    'move': {'x': [('en', 0)], 'xs': [('ix', 1), ('en', 0)], 'ix': [('en', 0)]},
}
EVL_SENDS = [('ie', 0)]


def build_chart(kind):
    h = CHARTS[kind]
    sc = Statechart(kind, preamble='c = 1000')

    def act(name, sends):
        code = "P('h', %r, event.s)" % name
        for sn, d in sends:
            if d == 'c2':
                code += "; send(%r, s=0, delay=2)" % sn
                continue
            code += "; c = c + 1; send(%r, s=c%s)" % (sn, ', delay=0' if d == '0!' else (', delay=%d' % d) if d else '')
        return code
    if kind == 'flat':
        sc.add_state(CompoundState('root', initial='a'), None)
        sc.add_state(BasicState('a'), 'root')
        for n, sends in h.items():
            sc.add_transition(Transition('a', None, event=n, action=act(n, sends)))
        sc.add_transition(Transition('a', None, guard='G(0, event)',
                                     action="P('evl'); c = c + 1; send('ie', s=c)"))
    elif kind == 'orth':
        sc.add_state(OrthogonalState('root'), None)
        sc.add_state(BasicState('a'), 'root')
        sc.add_state(BasicState('b'), 'root')
        # both regions react to x (one event, two transitions); the others are split
        sc.add_transition(Transition('a', None, event='x', action="P('h', 'x', event.s)"))
        sc.add_transition(Transition('b', None, event='x', action="P('h2', 'x', event.s)"))
        for n in ('xs', 'ix'):
            sc.add_transition(Transition('a', None, event=n, action=act(n, h[n])))
        sc.add_transition(Transition('b', None, event='xd', action=act('xd', h['xd'])))
        sc.add_transition(Transition('b', None, guard='G(0, event)',
                                     action="P('evl'); c = c + 1; send('ie', s=c)"))
    else:   # 'move': external transitions; the *entry code* of the target sends
        sc.add_state(CompoundState('root', initial='a'), None)
        sc.add_state(BasicState('a'), 'root')
        sc.add_state(BasicState('b', on_entry="c = c + 1; send('en', s=c)"), 'root')
        for src, dst in (('a', 'b'), ('b', 'b')):
            sc.add_transition(Transition(src, dst, event='x', action="P('h', 'x', event.s)"))
            sc.add_transition(Transition(src, dst, event='xs',
                                         action="P('h', 'xs', event.s); c = c + 1; send('ix', s=c, delay=1)"))
            sc.add_transition(Transition(src, dst, event='ix', action="P('h', 'ix', event.s)"))
        for src in ('a', 'b'):
            sc.add_transition(Transition(src, None, guard='G(0, event)',
                                         action="P('evl'); c = c + 1; send('ie', s=c)"))
    return sc


def ops_for(kind):
    ops = [('q', 'x', 0), ('q', 'x', 2), ('q', 'y', 0), ('q', 'y', 1), ('q', 'xs', 0), ('q', 'xs', 1),
           ('qi', 'ix', 0), ('qi', 'ix', 1), ('clock', 1), ('clock', 2), ('step', False), ('step', True)]
    if kind != 'move':
        ops += [('q', 'xd', 0)]
    if kind == 'flat':
        ops += [('q', 'xx', 0), ('q', 'xz', 0), ('q', 'xc', 0), ('qc',)]
    # q2 / q2d: several events in one queue() call (q2d: with decreasing delays)
    ops += [('q', 'x', '0!'), ('qi', 'ix', '0!'), ('q2', 'x', 'y'), ('q2d', 'x', 2, 'y', 1, 'x', 0)]
    # execute(): "repeatedly calls execute_once" - all steps, or at most two
    ops += [('exec', -1), ('exec', 2)]
    # one and the same Event object queued twice: two events
    ops += [('qsame', 'x')]
    # the interpreter is replaced by a snapshot of itself
    ops += [('snapstep', 'pickle'), ('snapstep', 'copy')]
    return ops


class RefQueues:
    """reference model: two sorted lists of (due, seq, serial, name)"""

    def __init__(self, kind):
        self.kind = kind
        self.now = 0        # Interpreter.time (time of the last step)
        self.clock = 0
        self.internal = []
        self.external = []
        self.seq = 0
        self.serial = 0     # serials of events queued by the driver
        self.c = 1000       # counter used by the chart's own sends
        self.consumed = []
        self.queued = []    # every (serial, name, due) ever queued
        self.last_internal = False

    def _put(self, q, due, serial, name):
        self.seq += 1
        q.append((due, self.seq, serial, name))
        q.sort(key=lambda e: (e[0], e[1]))
        self.queued.append((serial, name, due))

    def queue(self, name, delay, internal=False):
        self.serial += 1
        delay = 0 if delay == '0!' else delay
        self._put(self.internal if internal else self.external, self.now + delay, self.serial, name)
        return self.serial

    def sends(self, lst):
        for name, d in lst:
            if d == 'c2':
                self._put(self.internal, self.now + 2, 0, name)
                continue
            self.c += 1
            self._put(self.internal, self.now + (0 if d == '0!' else d), self.c, name)

    def pending(self, t):
        for q in (self.internal, self.external):
            if q and q[0][0] <= t:
                return q, q[0]
        return None, None

    def step(self, evl):
        """-> ('none',) | ('evl',) | ('event', serial, name, handled)"""
        self.now = self.clock
        if evl:
            self.sends(EVL_SENDS)
            return ('evl',)
        q, e = self.pending(self.now)
        if e is None:
            return ('none',)
        q.pop(0)
        due, seq, serial, name = e
        self.last_internal = q is self.internal
        self.consumed.append(serial)
        h = CHARTS[self.kind]
        if self.kind == 'move':
            handled = name in ('x', 'xs', 'ix')
            if handled:
                if name == 'xs':
                    self.sends([('ix', 1)])
                self.sends([('en', 0)])
        else:
            handled = name in h
            if handled:
                self.sends(h[name])
        return ('event', serial, name, handled)

    def canon(self):
        def q(lst):
            return tuple((max(due - self.now, 0), name) for due, _, _, name in lst)
        return (q(self.internal), q(self.external), min(self.clock - self.now, 3))


class Handle:
    """the interpreter under test, replaceable in the middle of a run by a restored snapshot of itself"""

    def __init__(self, it):
        object.__setattr__(self, '_it', it)

    def __getattr__(self, name):
        return getattr(object.__getattribute__(self, '_it'), name)

    def snap(self, how, listener_log):
        it = object.__getattribute__(self, '_it')
        it.detach(listener_log.append)          # the harness's own listener is not part of the snapshot
        clone = pickle.loads(pickle.dumps(it)) if how == 'pickle' else copy.deepcopy(it)
        clone.attach(listener_log.append)
        object.__setattr__(self, '_it', clone)


def apply_op(it, ref, op, listener_log):
    """apply op to implementation and reference; -> list of discrepancy strings"""
    errs = []
    k = op[0]
    if k == 'q':
        s = ref.queue(op[1], op[2])
        ev = Event(op[1], s=s, delay=0) if op[2] == '0!' else (
            Event(op[1], s=s, delay=op[2]) if op[2] else Event(op[1], s=s))
        it.queue(ev)
    elif k == 'qc':
        ref.serial += 0
        ref._put(ref.external, ref.now + 2, 0, 'iq')
        it.queue(Event('iq', s=0, delay=2))
    elif k == 'q2d':
        evs = []
        for name, d in ((op[1], op[2]), (op[3], op[4]), (op[5], op[6])):
            sx = ref.queue(name, d)
            evs.append(Event(name, s=sx, delay=d) if d else Event(name, s=sx))
        it.queue(*evs)
    elif k == 'q2':
        s1 = ref.queue(op[1], 0)
        s2 = ref.queue(op[2], 0)
        it.queue(Event(op[1], s=s1), Event(op[2], s=s2))
    elif k == 'snapstep':
        # the run goes on with a pickled / deep-copied snapshot of the interpreter: nothing about the queues changes;
        # the snapshot then executes a step (the explorer drains it afterwards)
        try:
            it.snap(op[1], listener_log)
        except Exception as e:
            return ['snapshot (%s) failed: %s: %s' % (op[1], type(e).__name__, str(e)[:80])]
        return apply_op(it, ref, ('step', False), listener_log)
    elif k == 'qsame':
        s1 = ref.queue(op[1], 0)
        ref._put(ref.external, ref.now, s1, op[1])
        ev = Event(op[1], s=s1)
        it.queue(ev, ev)
    elif k == 'qi':
        s = ref.queue(op[1], op[2], internal=True)
        ev = InternalEvent(op[1], s=s, delay=0) if op[2] == '0!' else (
            InternalEvent(op[1], s=s, delay=op[2]) if op[2] else InternalEvent(op[1], s=s))
        it.queue(ev)
    elif k == 'clock':
        ref.clock += op[1]
        it.clock.time += op[1]
    elif k == 'step':
        probes.VAL.clear()
        if op[1]:
            probes.VAL.add(0)
        probes.reset()
        del listener_log[:]
        exp = ref.step(op[1])
        try:
            st = it.execute_once()
        except Exception as e:
            probes.VAL.clear()
            return ['execute_once raised %s: %s' % (type(e).__name__, str(e)[:80])]
        probes.VAL.clear()
        errs += compare_step(exp, st, ref, listener_log)
    elif k == 'exec':
        probes.VAL.clear()
        probes.reset()
        del listener_log[:]
        exps = []
        while op[1] < 0 or len(exps) < op[1]:
            e = ref.step(False)
            if e[0] == 'none':
                break
            exps.append((e, ref.last_internal))
        try:
            steps = it.execute(max_steps=op[1])
        except Exception as e:
            return ['execute(max_steps=%d) raised %s: %s' % (op[1], type(e).__name__, str(e)[:80])]
        if len(steps) != len(exps):
            return ['execute(max_steps=%d) returned %d steps %s, expected %d: %s'
                    % (op[1], len(steps), [st.event for st in steps], len(exps), [e for e, _ in exps])]
        # the listener's log, cut at each 'step started'
        logs = []
        for m in listener_log:
            if m.name == 'step started':
                logs.append([])
            if logs:
                logs[-1].append(m)
        final = ref.last_internal
        for (e, li), st, lg in zip(exps, steps, logs):
            ref.last_internal = li
            errs += compare_step(e, st, ref, lg)
        ref.last_internal = final
    return errs


def compare_step(exp, st, ref, listener_log):
    errs = []
    if exp[0] == 'none':
        if st is not None:
            errs.append('nothing due (queues %s/%s at time %s) but the step consumed %r'
                        % (ref.internal, ref.external, ref.now, st.event))
        return errs
    if st is None:
        return ['expected %r but execute_once returned None' % (exp,)]
    if st.time != ref.now:
        errs.append('MacroStep.time %s, clock was %s' % (st.time, ref.now))
    evs = [ms.event for ms in st.steps if ms.event is not None]
    if any(e is not evs[0] for e in evs):
        errs.append('more than one event in a macro step: %r' % evs)
    consumed_meta = [e.event for e in listener_log if e.name == 'event consumed']
    if exp[0] == 'evl':
        if st.event is not None:
            errs.append('an eventless transition fired but %r was consumed' % st.event)
        if not st.transitions:
            errs.append('eventless transition enabled but not fired')
        if consumed_meta:
            errs.append("'event consumed' emitted during an eventless step")
        return errs
    _, serial, name, handled = exp
    if st.event is None:
        return ['expected %s(s=%d) to be consumed, step consumed nothing: %s' % (name, serial, st)]
    if isinstance(st.event, InternalEvent) != ref.last_internal:
        errs.append('consumed the %s event %s(s=%s), expected the %s one'
                    % ('internal' if isinstance(st.event, InternalEvent) else 'external', st.event.name, st.event.s,
                       'internal' if ref.last_internal else 'external'))
    if (st.event.name, st.event.s) != (name, serial):
        errs.append('consumed %s(s=%s), expected %s(s=%d) [internal first, (due, FIFO), delays]'
                    % (st.event.name, st.event.s, name, serial))
    if bool(st.transitions) != handled:
        errs.append('event %s: transitions fired = %s, expected %s' % (name, bool(st.transitions), handled))
    if len(consumed_meta) != 1 or consumed_meta[0] is not st.event:
        errs.append("'event consumed' meta-events %r do not match the consumed event %r"
                    % (consumed_meta, st.event))
    return errs


def crosscheck(it, ref):
    """guard against latent divergence: when the private queues exist they must hold exactly what the reference
    model holds (DESIGN.md §3.4; skipped silently if a refactoring removed the fields)"""
    if not (hasattr(it, '_internal_queue') and hasattr(it, '_external_queue')):
        return []
    try:
        got_i = [(t, e.name, e.data.get('s')) for t, e in it._internal_queue]
        got_e = [(t, e.name, e.data.get('s')) for t, e in it._external_queue]
    except Exception:
        return []
    want_i = [(due, name, serial) for due, _, serial, name in ref.internal]
    want_e = [(due, name, serial) for due, _, serial, name in ref.external]
    if got_i != want_i or got_e != want_e:
        return ['queues hold internal %s / external %s, the reference model holds %s / %s'
                % (got_i, got_e, want_i, want_e)]
    return []


def build(kind, sc, hist):
    it = Handle(Interpreter(sc, initial_context=probes.CONTEXT()))
    listener_log = []
    it.attach(listener_log.append)
    ref = RefQueues(kind)
    it.execute_once()
    for op in hist:
        apply_op(it, ref, op, listener_log)
    return it, ref, listener_log


def enabled(ref, op):
    if op[0] == 'q':
        return len(ref.external) < CAP
    if op[0] == 'qc':
        return len(ref.external) < CAP
    if op[0] in ('q2', 'qsame'):
        return len(ref.external) < CAP - 1
    if op[0] == 'q2d':
        return len(ref.external) < CAP - 2
    if op[0] == 'qi':
        return len(ref.internal) < CAP
    if op[0] == 'step' and not op[1]:
        return True
    if op[0] == 'step' and op[1]:
        return len(ref.internal) < CAP + 2
    if op[0] == 'clock':
        return ref.clock - ref.now < 3
    return True


def drain_check(it, ref, listener_log):
    """push the clock past every due time and drain: every queued event consumed exactly once"""
    errs = []
    n = 0
    while n < 60:
        n += 1
        ref.clock += 3          # past every delay in the alphabet
        it.clock.time += 3
        pending = bool(ref.internal or ref.external)
        e = apply_op(it, ref, ('step', False), listener_log)
        errs += e
        if e or not pending:
            break
    # final accounting
    queued = sorted(s for s, _, _ in ref.queued)
    consumed = sorted(ref.consumed)
    if queued != consumed and not errs:
        errs.append('after draining: queued serials %s, consumed %s' % (queued, consumed))
    if it.execute_once() is not None:
        errs.append('interpreter still produces steps after the reference queues are empty')
    return errs


_SC = {}


def expand(task):
    (kind, hist), last = task
    sc = _SC.get(kind) or _SC.setdefault(kind, build_chart(kind))
    res = {'transitions': 0, 'outcomes': collections.Counter(), 'violations': [], 'nviol': 0,
           'children': []}

    def viol(h, op, msg):
        res['nviol'] += 1
        if len(res['violations']) < 5:
            res['violations'].append({'chart': kind, 'hist': [list(o) for o in h],
                                      'op': list(op), 'detail': msg})
    # drain from this state: exactly-once accounting
    it, ref, ll = build(kind, sc, hist)
    for e in drain_check(it, ref, ll):
        viol(hist, ('drain',), e)
    res['transitions'] += 1
    res['outcomes']['drain'] += 1
    if last:
        return res
    _, ref0, _ = build(kind, sc, hist)
    for op in ops_for(kind):
        if not enabled(ref0, op):
            continue
        it, ref, ll = build(kind, sc, hist)
        errs = apply_op(it, ref, op, ll)
        if not errs:
            errs = crosscheck(it, ref)
        res['transitions'] += 1
        res['outcomes'][op[0]] += 1
        if op[0] == 'snapstep' and not errs:
            # the state reached is usually known already (a snapshot changes nothing): the future of the restored
            # interpreter is checked here and now, on a second copy of the run
            it2, ref2, ll2 = build(kind, sc, hist + (op,))
            errs = ['after the snapshot: ' + e for e in drain_check(it2, ref2, ll2)]
        for e in errs:
            viol(hist, op, e)
        if not errs:
            res['children'].append(((kind, ref.canon()), (kind, hist + (op,))))
    return res


def run(tier, seed):
    t0 = _time.time()
    depth = DEPTH[tier]
    roots = [((k, RefQueues(k).canon()), (k, ())) for k in CHARTS]
    agg = harness.level_bfs(expand, roots, depth)
    viols = []
    import re
    for v in sorted(agg.violations, key=lambda v: len(v['hist'])):
        sig = 'C05:' + re.sub(r'\d+', '#', v['detail'])[:70]
        viols.append(harness.Violation(sig, 'C05 chart %s after %s op %s: %s'
                                       % (v['chart'], v['hist'], v['op'], v['detail']),
                                       {'check': 'C05', **v}))
    cov = {
        'programs': len(CHARTS), 'states': agg.states, 'transitions': agg.transitions,
        'traces_validated_against_impl': agg.transitions, 'exhaustive': True, 'state_space_closed': bool(agg.closed),
        'depth': depth, 'closed_at_depth': agg.max_depth if agg.closed else None, 'queue_cap': CAP, 'outcomes': dict(agg.outcomes),
        'explanation': 'exhaustive up to the stated depth and queue cap (the space is infinite)',
        'samples': [{'chart': k, 'ops': [list(o) for o in ops_for(k)]} for k in CHARTS],
        'rule': 'BFS over all interleavings of the op alphabet up to the depth with <= %d entries per queue; '
                'states canonicalised by (relative due times, event kinds) of both queues and clock offset; '
                'every step compared with the reference queues by event serial; drain + exactly-once '
                'accounting at every state' % CAP,
    }
    return harness.finish('C05', tier, seed, 'model_checking', cov, viols, [
        'overdue entries are equivalent up to their order (new dues are never smaller than the interpreter time)',
        'due time of an event = Interpreter.time at queue()/send() + delay'], t0)


def replay(data):
    kind = data['chart']
    sc = build_chart(kind)
    it, ref, ll = build(kind, sc, ())
    for op in [tuple(o) for o in data['hist']] + [tuple(data['op'])]:
        if op[0] == 'drain':
            print('drain ->', drain_check(it, ref, ll))
            continue
        errs = apply_op(it, ref, op, ll)
        print(op, '-> time', it.time, 'internal', [(t, e.name, e.s) for t, e in it._internal_queue]
              if hasattr(it, '_internal_queue') else '', 'external',
              [(t, e.name, e.s) for t, e in it._external_queue] if hasattr(it, '_external_queue') else '',
              errs or '')
    print('recorded:', data['detail'])
    return 0
