"""C18 — a pickled or deep-copied interpreter continues exactly like the original.

For every operation history up to depth D (every macro-step boundary is the end of one of them) on
a chart with __old__ contracts, deep/shallow history over an orthogonal state, delayed internal and
external events, events with mutable payloads and context variables: snapshot by pickle and by
copy.deepcopy, then for every continuation up to depth C compare in lock-step (a) a twin that never
took a snapshot, (b) the restored pickle, (c) the restored deep copy, (d) the original after the
snapshots were taken; finally the snapshotted interpreter itself is compared with a twin after all its
copies have been run.  A context variable is first defined (setdefault) by an action, i.e. possibly
after the snapshot."""
import collections
import copy
import itertools
import pickle
import time as _time

from mc import harness

from sismic.io import import_from_yaml
from sismic.interpreter import Interpreter
from sismic.model import Event
import sismic.clock.clock as clockmod

BOUNDS = {'quick': (3, 2), 'thorough': (4, 2)}

Y = '''
statechart:
  name: c18
  preamble: |
    x = 0
    log = []
    bins = {'a': [], 'b': []}
  root state:
    name: root
    initial: work
    contract:
    - always: x >= __old__.x
    states:
    - name: work
      initial: a
      contract:
      - always: x >= __old__.x
      - always: bins['a'] is __old__.bins['a'] and len(bins['a']) >= 0
      - after: x > __old__.x or x == __old__.x
      transitions:
      - event: pause
        target: idle
        action: |
          setdefault('pauses', 0)
          pauses = pauses + 1
      states:
      - name: a
        on entry: x += 1
        transitions:
        - event: go
          target: b
          action: send('tick', delay=2)
          contract:
          - after: x == __old__.x
        - event: inc
          action: |
            x += 1
            bins['a'].append(x)
          contract:
          - after: x == __old__.x + 1
        - event: job
          action: |
            if event.tasks:
                log.append(event.tasks.pop(0))
      - name: b
        on entry: log.append(x)
        contract:
        - always: len(log) >= len(__old__.log)
        transitions:
        - event: tick
          target: a
        - event: go
          target: c
        - event: job
          action: |
            while event.tasks:
                log.append(event.tasks.pop())
      - name: c
        parallel states:
        - name: c1
          initial: c1a
          states:
          - name: c1a
            transitions:
            - event: go
              target: c1b
          - name: c1b
            transitions:
            - event: inc
              target: c1h
          - name: c1h
            type: shallow history
            memory: c1a
        - name: c2
          transitions:
          - event: inc
            action: x += 10
          - event: job
            target: c1h
      - name: h
        type: deep history
        memory: a
    - name: idle
      on entry: x >= -1000
      transitions:
      - event: resume
        target: h
        guard: x >= -1000
      - event: bad
        action: x -= 100
'''
# a property statechart bound to the interpreter (part of what is snapshotted): it counts the consumed events in
# its own context and becomes final at the seventh one, or 7 time units after it started (its clock follows the
# interpreter it is bound to, also in a restored copy) - PropertyStatechartError must then be raised by the
# original and by every restored copy at the same call
PROP = '''
statechart:
  name: c18-property
  preamble: seen = 0
  root state:
    name: p
    initial: counting
    states:
    - name: counting
      transitions:
      - event: event consumed
        action: seen += 1
      - guard: seen >= 7
        target: failed
      - guard: after(7)
        target: failed
    - name: failed
      type: final
'''
PREFIX = ('go', 'go', 'go', 'pause', 'resume')
# family B: the interpreter's SimulatedClock is *running* (speed 2) on a scripted real-time source; no real time
# passes between taking a snapshot and restoring it
REAL = [0]
clockmod.time = lambda: REAL[0]
OPSB = ['go', 'inc', 'pause', 'resume', 'step', 'real+1', 'job_d']
OPS = ['go', 'inc', 'pause', 'resume', 'bad', 'clock+2', 'step', 'job', 'job_d']
_SC = []


def sc():
    if not _SC:
        _SC.append(import_from_yaml(Y))
    return _SC[0]


def apply(it, op):
    if op == 'cstart':          # the clock runs from now on, at twice the speed of (scripted) real time
        it.clock.speed = 2
        it.clock.start()
        return ('clk', it.clock.time)
    if op == 'real+1':
        REAL[0] += 1
        return ('clk', it.clock.time)
    if op == 'clock+2':
        it.clock.time += 2
        return ('clk', it.clock.time)
    if op == 'job':
        it.queue(Event('job', tasks=['p', 'q']))
    elif op == 'job_d':
        it.queue(Event('job', tasks=['r', 's', 't'], delay=2))
    elif op != 'step':
        it.queue(op)
    try:
        st = it.execute_once()
        summary = None if st is None else (
            st.event.name if st.event else None, [str(t) for t in st.transitions],
            list(st.entered_states), list(st.exited_states), [e.name for e in st.sent_events])
        return ('ok', summary, sorted(it.configuration), repr(sorted(it.context.items())), it.time)
    except Exception as e:
        return ('exc', type(e).__name__, str(getattr(e, 'condition', ''))[:40])


_PROP = []


IGNORE = [False]     # family C: the interpreter is created with ignore_contract=True (and its copies must stay so)


def fresh(hist):
    REAL[0] = 0
    it = Interpreter(sc(), ignore_contract=IGNORE[0])
    if not _PROP:
        _PROP.append(import_from_yaml(PROP))
    it.bind_property_statechart(_PROP[0])
    it.execute_once()
    for op in hist:
        apply(it, op)
    return it


def work(task):
    hists, D, C = task[:3]
    ops = task[3] if len(task) > 3 else OPS
    IGNORE[0] = len(task) > 4 and task[4] == 'ignore'
    res = {'states': 0, 'transitions': 0, 'outcomes': collections.Counter(), 'violations': [],
           'nviol': 0}
    seen_states = set()

    def viol(kind, hist, cont, ref, got):
        res['nviol'] += 1
        if len(res['violations']) < 8:
            i = next((j for j, (a, b) in enumerate(zip(ref, got)) if a != b), 0)
            res['violations'].append({'kind': kind, 'hist': list(hist), 'cont': list(cont),
                                      'expected': repr(ref[i])[:300], 'observed': repr(got[i])[:300],
                                      'at': i})
    conts = [c for n in range(1, C + 1) for c in itertools.product(ops, repeat=n) if n == C]
    for hist in hists:
        it = fresh(hist)
        r0 = REAL[0]
        try:
            blob = pickle.dumps(it)
        except Exception as e:
            viol('pickle', hist, (), [('pickle.dumps works',)], [(type(e).__name__, str(e)[:100])])
            continue
        try:
            dc = copy.deepcopy(it)
        except Exception as e:
            viol('deepcopy', hist, (), [('copy.deepcopy works',)], [(type(e).__name__, str(e)[:100])])
            continue
        res['states'] += 1
        seen_states.add((tuple(it.configuration), repr(sorted(it.context.items()))))
        for cont in conts:
            ref_it = fresh(hist)
            ref = [apply(ref_it, op) for op in cont]
            res['outcomes'][ref[-1][0] if ref[-1][0] != 'exc' else 'exc:' + ref[-1][1]] += 1
            REAL[0] = r0
            b1 = pickle.loads(blob)
            got = [apply(b1, op) for op in cont]
            if got != ref:
                viol('pickle', hist, cont, ref, got)
            REAL[0] = r0
            b2 = copy.deepcopy(dc)
            got = [apply(b2, op) for op in cont]
            if got != ref:
                viol('deepcopy', hist, cont, ref, got)
            orig = fresh(hist)
            keep = (pickle.dumps(orig), copy.deepcopy(orig))
            got = [apply(orig, op) for op in cont]
            if got != ref:
                viol('original-disturbed', hist, cont, ref, got)
            REAL[0] = r0
            # ... and the copies taken from it must not have been disturbed by running the original
            got = [apply(keep[1], op) for op in cont]
            if got != ref:
                viol('deepcopy-shares-state', hist, cont, ref, got)
            res['transitions'] += 4
        # running the restored copies must not have reached back into the interpreter they were taken from
        twin = fresh(hist)
        a = (sorted(it.configuration), repr(sorted(it.context.items())), it.time)
        b = (sorted(twin.configuration), repr(sorted(twin.context.items())), twin.time)
        if a != b:
            viol('original-disturbed-by-running-copies', hist, ('(all continuations)',), [b], [a])
    res['distinct'] = len(seen_states)
    return res


def run(tier, seed):
    t0 = _time.time()
    D, C = BOUNDS[tier]
    hists = [h for d in range(0, D + 1) for h in itertools.product(OPS, repeat=d)]
    # start from a non-initial state too: history memories recorded and restored once (the orthogonal state left
    # with a non-default child, then re-entered through the deep history state); every history of length < D
    # from there
    hists += [PREFIX + h for d in range(0, D) for h in itertools.product(OPS, repeat=d)]
    nchunks = 16 * 6
    tasks = [(hists[i::nchunks], D, C) for i in range(nchunks)]
    hists_b = [('cstart',) + h for d in range(0, D) for h in itertools.product(OPSB, repeat=d)]
    tasks += [(hists_b[i::16], D, C, OPSB) for i in range(16)]
    # family C: contracts ignored (the chart has an action that breaks an invariant: 'bad')
    hists_c = [h for d in range(0, D) for h in itertools.product(OPS, repeat=d)]
    tasks += [(hists_c[i::16], D, C, OPS, 'ignore') for i in range(16)]
    hists = hists + hists_b + hists_c
    results = harness.pmap(work, tasks)
    agg = harness.Agg()
    viols = []
    for r in results:
        agg.add(r)
        for v in r['violations']:
            viols.append(harness.Violation(
                'C18:%s:%s' % (v['kind'], v['observed'].split(',')[1].strip(" '") if v['observed'].startswith("('exc'") else 'diverges'),
                'C18 %s: after %s, continuation %s step %d: expected %s, observed %s'
                % (v['kind'], v['hist'], v['cont'], v['at'], v['expected'], v['observed']),
                {'check': 'C18', **v}))
    viols.sort(key=lambda v: len(v.replay['hist']))
    cov = {
        'programs': 1, 'states': agg.states, 'transitions': agg.transitions,
        'traces_validated_against_impl': agg.transitions, 'exhaustive': True, 'state_space_closed': False,
        'history_depth': D, 'continuation_depth': C, 'alphabet': OPS,
        'distinct_interpreter_states_snapshotted': max(r['distinct'] for r in results),
        'outcomes': dict(agg.outcomes),
        'samples': [{'history': list(harness.pick_samples(OPS, seed + i, D)),
                     'continuation': list(harness.pick_samples(OPS, seed + 7 * i + 1, C))} for i in range(2)],
        'rule': 'every op sequence of length <= D, and the prefix go,go,go,pause,resume followed by every sequence of '
                'length < D (snapshot boundary at its end) x every continuation of '
                'length C; snapshot by pickle round-trip and by copy.deepcopy; restored copies, the original '
                'after snapshotting and a twin that never snapshotted compared step by step (macro step '
                'summary, configuration, context, time, exception kind + failing condition)',
    }
    return harness.finish('C18', tier, seed, 'model_checking', cov, viols, [
        'one chart with all the stateful features (contracts with __old__, deep+shallow history, orthogonal '
        'state, delayed internal/external events, mutable event payloads, context variables)'], t0)


def replay(data):
    hist, cont = data['hist'], data['cont']
    it = fresh(hist)
    ref = fresh(hist)
    if data['kind'] == 'pickle':
        b = pickle.loads(pickle.dumps(it))
    else:
        b = copy.deepcopy(it)
    print('history      :', hist)
    for op in cont:
        print('op %-9s twin    : %s' % (op, apply(ref, op)))
        print('             restored: %s' % (apply(b, op),))
    print('recorded     :', data['kind'], data['expected'], '!=', data['observed'])
    return 0
