"""C14 — clocks are monotonic and faithful.

Explicit-state search over every sequence of clock operations and real-time increments up to a
depth, on the real SimulatedClock whose time source (sismic.clock.clock.time) is scripted, against
an exact Fraction reference clock.  States are merged only when the *concrete* state of the
implementation (its whole __dict__), the scripted real time and the reference state all coincide,
so merging is exact."""
import collections
import copy
import time as _time
from fractions import Fraction

from mc import harness

import sismic.clock.clock as clockmod
from sismic.clock import SimulatedClock, SynchronizedClock

REAL = [0]
clockmod.time = lambda: REAL[0]      # scripted real-time source (the module does `from time import time`)

HALF = Fraction(1, 2)
OPS = [('start',), ('stop',), ('speed', 0), ('speed', HALF), ('speed', 1), ('speed', 2),
       ('set', 0), ('set', 1), ('set', -1), ('real', 1), ('real', 3)]
DEPTH = {'quick': 8, 'thorough': 11}


class RefClock:
    __slots__ = ('v', 'play', 'speed')

    def __init__(self):
        self.v, self.play, self.speed = Fraction(0), False, Fraction(1)

    def key(self):
        return (self.v, self.play, self.speed)

    def apply(self, op):
        """-> expected exception class or None"""
        k = op[0]
        if k == 'start':
            self.play = True
        elif k == 'stop':
            self.play = False
        elif k == 'speed':
            self.speed = Fraction(op[1])
        elif k == 'set':
            new = self.v + op[1]
            if new < self.v:
                return ValueError
            self.v = new
        elif k == 'real':
            if self.play:
                self.v += self.speed * op[1]
        return None


def apply_impl(clk, op, ref_v_before):
    k = op[0]
    if k == 'start':
        clk.start()
    elif k == 'stop':
        clk.stop()
    elif k == 'speed':
        clk.speed = op[1]
    elif k == 'set':
        clk.time = ref_v_before + op[1]
    elif k == 'real':
        REAL[0] += op[1]


def build(hist):
    REAL[0] = 0
    clk = SimulatedClock()
    ref = RefClock()
    for op in hist:
        vb = ref.v
        exp = ref.apply(op)
        try:
            apply_impl(clk, op, vb)
        except ValueError:
            pass
    return clk, ref


def concrete_key(clk, ref):
    return (REAL[0], tuple(sorted((k, repr(v)) for k, v in vars(clk).items())), ref.key())


def explore(prefix, depth):
    """BFS below `prefix` down to total depth `depth`"""
    res = {'states': 0, 'transitions': 0, 'outcomes': collections.Counter(), 'violations': [],
           'nviol': 0, 'values': set(), 'max_depth': 0}

    def viol(hist, op, msg):
        res['nviol'] += 1
        if len(res['violations']) < 10:
            res['violations'].append({'hist': [list(map(str, o)) for o in hist],
                                      'op': list(map(str, op)), 'detail': msg})

    clk, ref = build(prefix)
    seen = {concrete_key(clk, ref)}
    frontier = collections.deque([tuple(prefix)])
    while frontier:
        hist = frontier.popleft()
        res['max_depth'] = max(res['max_depth'], len(hist))
        if len(hist) >= depth:
            continue
        for op in OPS:
            clk, ref = build(hist)
            before = clk.time
            vb = ref.v
            if before != vb:
                viol(hist, ('read',), 'clock shows %s, reference %s' % (before, vb))
                continue
            exp = ref.apply(op)
            got = None
            try:
                apply_impl(clk, op, vb)
            except ValueError:
                got = ValueError
            except Exception as e:
                got = type(e)
            res['transitions'] += 1
            after = clk.time
            again = clk.time
            res['outcomes'][op[0] + (':ValueError' if got else '')] += 1
            res['values'].add(after)
            if got is not exp:
                viol(hist, op, 'expected %s, got %s' % (getattr(exp, '__name__', exp),
                                                         getattr(got, '__name__', got)))
            if after != ref.v:
                viol(hist, op, 'clock shows %s after the operation, reference %s (before: %s)'
                     % (after, ref.v, before))
            if after < before:
                viol(hist, op, 'clock went backwards: %s -> %s' % (before, after))
            if again != after:
                viol(hist, op, 'two reads without real time passing differ: %s, %s' % (after, again))
            if clk.speed != ref.speed:
                viol(hist, op, 'speed attribute %s, reference %s' % (clk.speed, ref.speed))
            key = concrete_key(clk, ref)
            if key not in seen:
                seen.add(key)
                frontier.append(hist + (op,))
    res['states'] = len(seen)
    res['values'] = len(res['values'])
    return res



# ---------------------------------------------------------------------------------------------
# part B: SynchronizedClock — chains of interpreters following each other
#
# L runs on a SimulatedClock that the explorer sets; F's clock follows L, G's clock follows F, a
# property statechart P is bound to F (its clock follows F), and three free-standing observer
# clocks follow L, F and G.  "The time of the last step of the interpreter it follows" is kept by
# the reference as one number per interpreter: the value its own clock showed when its latest
# execute_once call started.
# ('reclock', X): the clock object of X is replaced by an equivalent new one (same source of time); the time of the
# last step of X is a fact about X's past and does not change
SYNC_OPS = [('adv', 1), ('adv', 2), ('step', 'L'), ('step', 'F'), ('step', 'G'), ('qstep', 'L'),
            ('qstep', 'F'), ('qstep', 'G'), ('reclock', 'L'), ('reclock', 'F')]
SYNC_DEPTH = {'quick': 8, 'thorough': 11}

_SYNC_CHART = None


def _sync_chart():
    global _SYNC_CHART
    if _SYNC_CHART is None:
        from sismic.model import Statechart, CompoundState, BasicState, Transition
        sc = Statechart('sync')
        sc.add_state(CompoundState('root', initial='a'), None)
        sc.add_state(BasicState('a'), 'root')
        sc.add_state(BasicState('b'), 'root')
        sc.add_transition(Transition('a', 'b', event='e'))
        sc.add_transition(Transition('b', 'a', event='e'))
        prop = Statechart('prop')
        prop.add_state(CompoundState('root', initial='w'), None)
        prop.add_state(BasicState('w'), 'root')
        prop.add_transition(Transition('w', None, event='step started'))
        _SYNC_CHART = (sc, prop)
    return _SYNC_CHART


class SyncSystem:
    def __init__(self):
        from sismic.interpreter import Interpreter
        sc, prop = _sync_chart()
        self.base = SimulatedClock()
        self.L = Interpreter(sc, clock=self.base)
        self.F = Interpreter(sc, clock=SynchronizedClock(self.L))
        self.G = Interpreter(sc, clock=SynchronizedClock(self.F))
        self.P = []
        self.F.bind_property_statechart(prop, interpreter_klass=self._klass)
        self.obs = {k: SynchronizedClock(getattr(self, k)) for k in 'LFG'}
        self.ref = {'base': 0, 'L': 0, 'F': 0, 'G': 0, 'P': 0}
        # a step has begun as soon as it is announced: whoever is told about a step (any meta-event, 'step started'
        # first) must already read that step's time from a clock that follows the interpreter
        self.during = []
        for k in 'LFG':
            getattr(self, k).attach(lambda ev, k=k: self._seen(k, ev))

    def _seen(self, who, ev):
        t = self.obs[who].time
        if t != self.ref[who]:
            self.during.append("during '%s' of a step of %s at %s, a SynchronizedClock on %s shows %s"
                               % (ev.name, who, self.ref[who], who, t))
        if ev.name == 'step started' and ev.time != self.ref[who]:
            self.during.append("'step started' of %s carries time %s, the step is at %s" % (who, ev.time, self.ref[who]))

    def _klass(self, statechart, clock):
        from sismic.interpreter import Interpreter
        it = Interpreter(statechart, clock=clock)
        self.P.append(it)
        return it

    def apply(self, op):
        """-> list of discrepancies"""
        errs = []
        if op[0] == 'adv':
            self.ref['base'] += op[1]
            self.base.time = self.ref['base']
        elif op[0] == 'reclock':
            if op[1] == 'L':
                self.base = SimulatedClock()
                self.base.time = self.ref['base']
                self.L.clock = self.base
            else:
                self.F.clock = SynchronizedClock(self.L)
        else:
            who = op[1]
            it = getattr(self, who)
            # the follower samples the time of the last step of the interpreter it follows
            src = {'L': 'base', 'F': 'L', 'G': 'F'}[who]
            self.ref[who] = self.ref[src]
            if who == 'F':
                self.ref['P'] = self.ref['F']     # the property statechart runs on F's meta-events
            if op[0] == 'qstep':
                it.queue('e')
            step = it.execute_once()
            if step is not None and step.time != self.ref[who]:
                errs.append('MacroStep of %s carries time %s, its clock showed %s' % (who, step.time, self.ref[who]))
        errs += self.during[:3]
        del self.during[:]
        return errs + self.check()

    def check(self):
        errs = []
        for who in 'LFG':
            it = getattr(self, who)
            if it.time != self.ref[who]:
                errs.append('Interpreter.time of %s is %s, its last step was at %s' % (who, it.time, self.ref[who]))
            if self.obs[who].time != self.ref[who]:
                errs.append('SynchronizedClock on %s shows %s, the last step of %s was at %s'
                            % (who, self.obs[who].time, who, self.ref[who]))
        if self.F.clock.time != self.ref['L']:
            errs.append('clock of F (follows L) shows %s, last step of L was at %s' % (self.F.clock.time, self.ref['L']))
        if self.G.clock.time != self.ref['F']:
            errs.append('clock of G (follows F) shows %s, last step of F was at %s' % (self.G.clock.time, self.ref['F']))
        for p in self.P:
            if p.clock.time != self.ref['F']:
                errs.append('clock of the property statechart bound to F shows %s, last step of F was at %s'
                            % (p.clock.time, self.ref['F']))
            if p.time != self.ref['P']:
                errs.append('property statechart bound to F last ran at %s, F at %s' % (p.time, self.ref['P']))
        if len(self.P) != 1:
            errs.append('%d property interpreters were created' % len(self.P))
        return errs

    def key(self):
        r = self.ref
        return (r['base'] - r['L'], r['L'] - r['F'], r['F'] - r['G'],
                tuple(sorted(getattr(self, k).configuration[-1] for k in 'LFG')), r['base'] > 0)


def sync_build(hist):
    s = SyncSystem()
    for k in 'LFG':       # initial steps: everything starts at 0
        getattr(s, k).execute_once()
    for op in hist:
        s.apply(op)
    return s


def explore_sync(depth):
    res = {'states': 0, 'transitions': 0, 'outcomes': collections.Counter(), 'violations': [],
           'nviol': 0, 'max_depth': 0}
    s = sync_build(())
    for e in s.check():
        res['nviol'] += 1
        res['violations'].append({'hist': [], 'op': ['init'], 'detail': e, 'part': 'sync'})
    seen = {s.key()}
    frontier = collections.deque([()])
    while frontier:
        hist = frontier.popleft()
        res['max_depth'] = max(res['max_depth'], len(hist))
        if len(hist) >= depth:
            continue
        for op in SYNC_OPS:
            s = sync_build(hist)
            errs = s.apply(op)
            res['transitions'] += 1
            res['outcomes']['sync:' + op[0]] += 1
            for e in errs:
                res['nviol'] += 1
                if len(res['violations']) < 10:
                    res['violations'].append({'hist': [list(map(str, o)) for o in hist],
                                              'op': list(map(str, op)), 'detail': e, 'part': 'sync'})
            k = s.key()
            if not errs and k not in seen:
                seen.add(k)
                frontier.append(hist + (op,))
    res['states'] = len(seen)
    return res


# ---------------------------------------------------------------------------------------------
# part C: a clock that is never started, float speeds, and times that a float cannot hold (a nanosecond timestamp):
# assignments are exact, a lower value is refused, changing the speed of a stopped clock does not move it
BIG = 2 ** 60 + 1
BIG_OPS = [('speed', 0.5), ('speed', 2.0), ('speed', 1), ('set', BIG), ('set', 1), ('set', 0), ('set', -1), ('stop',)]
BIG_DEPTH = 5


def explore_big():
    import itertools as _it
    res = {'states': 0, 'transitions': 0, 'outcomes': collections.Counter(), 'violations': [], 'nviol': 0,
           'values': 0, 'max_depth': BIG_DEPTH}
    for seq in _it.product(BIG_OPS, repeat=BIG_DEPTH):
        REAL[0] = 0
        clk = SimulatedClock()
        v = 0
        for i, op in enumerate(seq):
            exp = None
            try:
                if op[0] == 'speed':
                    clk.speed = op[1]
                elif op[0] == 'stop':
                    clk.stop()
                else:
                    if op[1] < 0:
                        exp = ValueError
                    else:
                        v = v + op[1]
                    clk.time = (v + op[1]) if op[1] < 0 else v
                got = None
            except ValueError:
                got = ValueError
            res['transitions'] += 1
            if got is not exp or clk.time != v or (clk.time - v) != 0:
                res['nviol'] += 1
                if len(res['violations']) < 5:
                    res['violations'].append({'hist': [list(map(str, o)) for o in seq[:i]], 'op': list(map(str, op)),
                                              'part': 'big', 'detail': 'stopped clock: expected %s and time %d, got %s and '
                                              'time %r' % (getattr(exp, '__name__', None), v, getattr(got, '__name__', None), clk.time)})
                break
    res['states'] = len(BIG_OPS) ** BIG_DEPTH
    res['outcomes']['big-int sequences'] = res['states']
    return res


def work(task):
    prefix, depth = task
    return explore(prefix, depth)


def run(tier, seed):
    t0 = _time.time()
    depth = DEPTH[tier]
    # fan out on the first two operations; states are deduplicated within each subtree
    tasks = [((a, b), depth) for a in OPS for b in OPS]
    results = [explore((), 2)] + harness.pmap(work, tasks, chunksize=2)
    clockmod.time = _time.time      # part B reads no real time, but SimulatedClock() samples it once
    sync = explore_sync(SYNC_DEPTH[tier])
    clockmod.time = lambda: REAL[0]
    sync['values'] = 0
    results.append(sync)
    results.append(explore_big())
    agg = harness.Agg()
    viols = []
    nvalues = 0
    for r in results:
        agg.add(r)
        nvalues = max(nvalues, r['values'])
        for v in r['violations']:
            viols.append(harness.Violation('C14:' + v['detail'].split(',')[0][:60].rstrip('0123456789/- '),
                                           'C14 after %s op %s: %s' % (v['hist'], v['op'], v['detail']),
                                           {'check': 'C14', **v}))
    viols.sort(key=lambda v: len(v.replay['hist']))
    cov = {
        'states': agg.states, 'transitions': agg.transitions,
        'traces_validated_against_impl': agg.transitions, 'exhaustive': True,
        'depth': depth, 'alphabet': [list(map(str, o)) for o in OPS],
        'outcomes': dict(agg.outcomes), 'distinct_clock_values_in_one_subtree': nvalues,
        'samples': [{'sequence': [list(map(str, o)) for o in harness.pick_samples(OPS, seed + i, depth)]}
                    for i in range(2)],
        'synchronized': {'depth': SYNC_DEPTH[tier], 'states': sync['states'], 'transitions': sync['transitions'],
                         'alphabet': [list(map(str, o)) for o in SYNC_OPS],
                         'rule': 'chain L <- F <- G of interpreters whose clocks follow each other, a property '
                                 'statechart bound to F, three observer clocks; after every op every synchronized '
                                 'clock is compared with the time of the last step of the interpreter it follows'},
        'rule': 'every sequence of {start, stop, speed:=0|1/2|1|2, time:=now+0|+1|-1, real time += 1|3} '
                'up to the depth from a fresh SimulatedClock; states merged only on identical concrete '
                'implementation state + real time + reference state; value, exception, monotonicity and '
                'speed compared with an exact Fraction reference after every operation',
    }
    return harness.finish('C14', tier, seed, 'model_checking', cov, viols, [
        'real time does not advance inside one clock operation',
        'the clock reads time only through sismic.clock.clock.time (scripted)',
        'SynchronizedClock == Interpreter.time is also checked at every state of C13\'s exploration'], t0)


def replay(data):
    if data.get('part') == 'big':
        print(data)
        print(explore_big()['violations'][:2])
        return 0
    if data.get('part') == 'sync':
        clockmod.time = _time.time
        conv = lambda o: (o[0], int(o[1])) if o[0] == 'adv' else tuple(o)
        sysm = sync_build(())
        for o in [conv(o) for o in data['hist']] + ([conv(data['op'])] if data['op'][0] != 'init' else []):
            print(o, '->', sysm.apply(o) or 'ok', ' reference', sysm.ref)
        print('recorded:', data['detail'])
        return 0
    hist = [tuple(o) for o in data['hist']] + [tuple(data['op'])]
    REAL[0] = 0
    clk = SimulatedClock()
    ref = RefClock()

    def conv(o):
        if len(o) == 1:
            return o
        return (o[0], Fraction(o[1]))
    for o in map(conv, hist):
        if o[0] == 'read':
            continue
        vb = ref.v
        exp = ref.apply(o)
        try:
            apply_impl(clk, o, vb)
            got = None
        except Exception as e:
            got = type(e).__name__
        print('%-14s real=%-3s clock=%-6s reference=%-6s %s' % (o, REAL[0], clk.time, ref.v,
                                                              got or ''))
    print('recorded:', data['detail'])
    return 0
