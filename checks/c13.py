"""C13 — time is frozen per step; after() and idle() mean what they say.

Explicit-state BFS over clock advances (also *inside* a step, through the ADV probe), events and
execute_once calls on charts using after/idle/time in guards, actions and contracts.  A reference
time model (entry / idle stamps per active state, exact integers) predicts the truth of every time
predicate, hence — through refmodel.select — the fired transitions; every value of `time`,
MacroStep.time, 'step started'.time and every predicate value observed through logging probes is
compared.  Ages are capped at 4 in the canonical state (predicates compare with d <= 3)."""
import collections
import time as _time

from mc import harness, probes
from mc.chartgen import build_api, Tree
from mc.refmodel import Model

from sismic.interpreter import Interpreter
from sismic.model import Event
from sismic.clock import SynchronizedClock

DEPTH = {'quick': 8, 'thorough': 60}
CAP = 4


def W(tag, val):
    probes.LOG.append(('w', tag, bool(val)))
    return val


def st(name, kind, parent, **kw):
    d = {'name': name, 'kind': kind, 'parent': parent, 'on_entry': "P('en', %r, time)" % name,
         'on_exit': "P('ex', %r, time)" % name}
    d.update(kw)
    return d


def tr(tid, source, target, event=None, tguard=None, action=None, tag=None, **kw):
    g = None
    if tguard:
        # tag: several transitions carrying the very same guard text (the predicate is relative to each one's source)
        g = 'W(%r, %s(%d))' % (tag if tag else tid, tguard[0], tguard[1])
    d = {'tid': tid, 'source': source, 'target': target, 'event': event, 'guard': g,
         'tguard': tguard, 'action': action, 'priority': 0}
    d.update(kw)
    return d


INV = "C(%r, after(2), idle(2), after(3), idle(3), time)"


def chart_seq():
    states = [
        st('root', 'C', None, initial='a', inv=[INV % 'root']),
        st('a', 'B', 'root', inv=[INV % 'a']),
        st('b', 'C', 'root', initial='b1', inv=[INV % 'b']),
        st('b1', 'B', 'b', inv=[INV % 'b1']),
        st('b2', 'B', 'b', inv=[INV % 'b2']),
    ]
    T = [
        tr(0, 'a', 'b', tguard=('after', 2), action="P('t', time)"),
        tr(1, 'a', None, event='x', action="P('t', time)"),
        tr(2, 'a', None, event='adv', action="ADV(2); send('late', delay=1); P('t', time)", adv=2, sends=[('late', 1)]),
        tr(3, 'b', 'a', tguard=('idle', 3), action="P('t', time)"),
        tr(4, 'b1', 'b2', event='x', action="P('t', time)",
           inv=["C('inv4', after(2), after(0), time)"], post=["C('post4', after(3), time)"]),
        tr(5, 'b1', 'b2', tguard=('after', 3), action="ADV(1); P('t', time)", adv=1),
        tr(6, 'b2', 'b2', event='x', tguard=('idle', 2), action="P('t', time)"),
        tr(7, 'b', None, event='adv', action="ADV(1); send('late', delay=2); P('t', time)", adv=1, sends=[('late', 2)]),
        tr(8, 'b2', None, event='y', tguard=('after', 1), action="P('t', time)"),
        # a nested state targeting its own ancestor, and a compound state targeting its active descendant:
        # the re-entered states must restart their timers although they were active before the step
        tr(9, 'b1', 'b', event='y', action="P('t', time)"),
        tr(10, 'b', 'b2', event='z', action="P('t', time)"),
    ]
    return {'name': 'seq', 'preamble': None, 'description': None, 'states': states, 'transitions': T}


def chart_orth():
    states = [
        st('root', 'O', None, inv=[INV % 'root']),
        st('p', 'C', 'root', initial='p1', inv=[INV % 'p']),
        st('p1', 'B', 'p', inv=[INV % 'p1']),
        st('p2', 'B', 'p'),
        st('q', 'C', 'root', initial='q1'),
        st('q1', 'B', 'q', inv=[INV % 'q1']),
        st('q2', 'B', 'q', inv=[INV % 'q2']),
    ]
    T = [
        tr(0, 'p1', 'p2', tguard=('after', 2), action="P('t', time)"),
        tr(1, 'p2', 'p1', tguard=('idle', 1), event='x', action="ADV(1); send('late', delay=1); P('t', time)", adv=1,
           sends=[('late', 1)]),
        tr(2, 'q1', 'q2', event='x', action="P('t', time)"),
        tr(3, 'q2', 'q1', tguard=('after', 3), action="P('t', time)"),
        tr(4, 'q2', None, event='x', tguard=('idle', 2), action="P('t', time)"),
        tr(5, 'p', None, event='y', tguard=('after', 3), action="P('t', time)"),
        tr(6, 'p1', None, event='y', tguard=('idle', 1), action="P('t', time)"),
        # textually identical guards on states entered at different times: a region's child, the other region's
        # child, and the compound state above the first one
        tr(7, 'p2', None, event='w', tguard=('after', 2), action="P('t', time)", tag='S'),
        tr(8, 'q2', None, event='w', tguard=('after', 2), action="P('t', time)", tag='S'),
        tr(9, 'p', None, event='w', tguard=('after', 2), action="P('t', time)", tag='S'),
    ]
    return {'name': 'orth', 'preamble': None, 'description': None, 'states': states, 'transitions': T}


CHARTS = {'seq': chart_seq, 'orth': chart_orth}
# ('stepL', d): execute_once while a listener moves the clock by d when 'step started' is emitted,
# i.e. after the time was sampled and before any guard is evaluated
# ('qd', name, d): an external event queued with a delay (its due time is relative to the frozen time; queueing
# must not move Interpreter.time)
OPS = [('clock', 1), ('clock', 2), ('clock', 3), ('q', 'x'), ('q', 'y'), ('q', 'z'), ('q', 'w'), ('q', 'adv'), ('step',),
       ('stepL', 2), ('stepL', 3), ('qd', 'x', 2), ('qd', 'y', 1)]


class Ref:
    def __init__(self, spec):
        self.m = Model(spec)
        self.T = self.m.T
        self.trans = self.m.trans
        self.clock = 0
        self.now = 0
        self.conf = set()
        self.entry = {}
        self.idle = {}
        self.iq = []        # internal events: (due, seq, name)
        self.eq = []        # external events
        self.seq = 0
        self.started = False

    def put(self, q, due, name):
        self.seq += 1
        q.append((due, self.seq, name))
        q.sort()

    def pending(self, t):
        for q in (self.iq, self.eq):
            if q and q[0][0] <= t:
                return q
        return None

    def truth(self, tg, s, now):
        kind, d = tg
        base = self.entry[s] if kind == 'after' else self.idle[s]
        return now - d >= base

    def enter(self, states):
        for s in states:
            self.conf.add(s)
            self.entry[s] = self.now
            self.idle[s] = self.now

    def step(self, listener_adv=0):
        """-> dict(expect...) describing everything observable about this call"""
        t = self.clock
        self.now = t
        self.clock += listener_adv
        exp = {'time': t, 'guards': {}, 'fired': [], 'consumed': None, 'none': False}
        if not self.started:
            self.started = True
            self.enter(sorted(self.m.initial_conf(), key=lambda s: self.T.depth(s)))
            exp['init'] = True
            return exp
        pq = self.pending(t)
        pending = pq[0][2] if pq else None
        val = set()
        for tid, x in enumerate(self.trans):
            if x['source'] in self.conf and x.get('tguard'):
                tv = self.truth(x['tguard'], x['source'], t)
                exp['guards'][tid] = tv
                if tv:
                    val.add(tid)
        fired, evless = self.m.select(self.conf, pending, val)
        assert self.m.classify(fired) == 'ok', 'chart design: no conflicts expected'
        if not fired and pending is None:
            exp['none'] = True
            return exp
        if pending is not None and not (fired and evless):
            exp['consumed'] = pq.pop(0)[2]
        for tid in self.m.order(fired):
            x = self.trans[tid]
            r = self.m.predict_transition(self.conf, {}, tid)
            for s in r['exit']:
                self.conf.discard(s)
                self.entry.pop(s, None)
                self.idle.pop(s, None)
            if x.get('adv'):
                self.clock += x['adv']
            for name, d in x.get('sends', []):
                self.put(self.iq, t + d, name)      # relative to the frozen time, not to the moved clock
            if x.get('target') is None:
                # internal transition: the source stays active, keeps its entry time, idle is reset
                self.idle[x['source']] = t
            newly = list(r['path']) + sorted(
                set(r['completed']) - set(r['conf_main']), key=lambda s: self.T.depth(s))
            self.enter(newly)
            exp['fired'].append(tid)
        return exp

    def inv_values(self, s):
        t = self.now
        return (t - 2 >= self.entry[s], t - 2 >= self.idle[s], t - 3 >= self.entry[s],
                t - 3 >= self.idle[s], t)

    def canon(self):
        ages = tuple(sorted((s, min(self.now - self.entry[s], CAP), min(self.now - self.idle[s], CAP))
                            for s in self.conf))
        def q(lst):
            return tuple((max(due - self.now, 0), name) for due, _, name in lst)
        return (ages, min(self.clock - self.now, CAP), q(self.iq), q(self.eq))


class Driver:
    def __init__(self, kind):
        self.kind = kind
        self.spec = CHARTS[kind]()
        self.sc, self.objs = build_api(self.spec)
        self.tid_of = {id(o): i for i, o in enumerate(self.objs)}

    def build(self, hist):
        ctx = probes.CONTEXT()
        ctx['W'] = W
        it = Interpreter(self.sc, initial_context=ctx)
        probes.HOOKS['adv'] = lambda d: setattr(it.clock, 'time', it.clock.time + d)
        meta = []
        it.attach(meta.append)
        self.arm = [0]

        def mover(ev):
            if ev.name == 'step started' and self.arm[0]:
                it.clock.time += self.arm[0]
        it.attach(mover)
        sync = SynchronizedClock(it)
        ref = Ref(self.spec)
        errs = self.apply(it, ref, ('step',), meta, sync)
        for op in hist:
            self.apply(it, ref, op, meta, sync)
        return it, ref, meta, sync

    def apply(self, it, ref, op, meta, sync):
        errs = []
        if op[0] == 'clock':
            before = it.time
            ref.clock += op[1]
            it.clock.time += op[1]
            if it.time != before:
                errs.append('Interpreter.time changed from %s to %s without execute_once' % (before, it.time))
            if it.clock.time != ref.clock:
                errs.append('clock shows %s, expected %s' % (it.clock.time, ref.clock))
        elif op[0] in ('q', 'qd'):
            before = it.time
            if op[0] == 'q':
                ref.put(ref.eq, ref.now, op[1])
                it.queue(op[1])
            else:
                ref.put(ref.eq, ref.now + op[2], op[1])
                it.queue(Event(op[1], delay=op[2]))
            if it.time != before:
                errs.append('Interpreter.time changed from %s to %s by queue(), without execute_once' % (before, it.time))
        else:
            probes.reset()
            probes.CVAL['fail_at'] = None
            del meta[:]
            self.arm[0] = op[1] if op[0] == 'stepL' else 0
            exp = ref.step(self.arm[0])
            try:
                step = it.execute_once()
            except Exception as e:
                return ['execute_once raised %s: %s' % (type(e).__name__, str(e)[:100])]
            finally:
                self.arm[0] = 0
            errs += self.compare(exp, step, ref, it, meta)
        et, idt = getattr(it, '_entry_time', None), getattr(it, '_idle_time', None)
        if isinstance(et, dict) and isinstance(idt, dict) and not errs:
            for st_ in ref.conf:
                if et.get(st_) != ref.entry.get(st_) or idt.get(st_) != ref.idle.get(st_):
                    errs.append('state %s: entry/idle stamps are %s/%s, the time model has %s/%s'
                                % (st_, et.get(st_), idt.get(st_), ref.entry.get(st_), ref.idle.get(st_)))
                    break
        if sync.time != it.time:
            errs.append('SynchronizedClock shows %s, Interpreter.time is %s' % (sync.time, it.time))
        if it.time != ref.now:
            errs.append('Interpreter.time is %s, time of the last step was %s' % (it.time, ref.now))
        return errs

    def compare(self, exp, step, ref, it, meta):
        errs = []
        t = exp['time']
        log = list(probes.LOG)
        started = [e for e in meta if e.name == 'step started']
        if len(started) != 1 or started[0].time != t:
            errs.append("'step started' time %s, clock was %s at the call"
                        % ([e.time for e in started], t))
        if exp['none']:
            if step is not None:
                errs.append('no time predicate holds and nothing is pending, but %s' % step)
        elif step is None:
            errs.append('expected transitions %s (consumed %s), got no step' % (exp['fired'], exp['consumed']))
        else:
            if step.time != t:
                errs.append('MacroStep.time %s, clock was %s at the call' % (step.time, t))
            if not exp.get('init'):
                got = [self.tid_of[id(x)] for x in step.transitions]
                if got != exp['fired']:
                    errs.append('fired %s, time model predicts %s (guard truths %s)'
                                % (got, exp['fired'], exp['guards']))
                ev = step.event.name if step.event else None
                if ev != exp['consumed']:
                    errs.append('consumed %s, expected %s' % (ev, exp['consumed']))
        for e in log:
            if e[0] == 'w':
                if e[1] in exp['guards'] and exp['guards'][e[1]] != e[2]:
                    tg = ref.trans[e[1]]['tguard']
                    errs.append('guard %s(%d) of %s evaluated to %s, expected %s at time %s'
                                % (tg[0], tg[1], ref.trans[e[1]]['source'], e[2], exp['guards'][e[1]], t))
            elif e[0] in ('t', 'en', 'ex'):
                if e[-1] != t:
                    errs.append('code %r saw time %s during the step started at %s' % (e[:-1], e[-1], t))
            elif e[0] == 'c' and e[-1] != t:
                errs.append('contract %s saw time %s during the step started at %s' % (e[1], e[-1], t))
        if not errs:
            # state invariants at the end of the call: predicted predicate values
            got_inv = [e for e in log if e[0] == 'c' and not str(e[1]).startswith(('inv4', 'post4'))]
            want = []
            for s in sorted(ref.conf, key=lambda s: (ref.T.depth(s), s)):
                if ref.T.st[s].get('inv'):
                    want.append(('c', s) + ref.inv_values(s))
            if got_inv != want:
                errs.append('state invariants saw %s, time model predicts %s' % (got_inv, want))
            for e in log:
                if e[0] == 'c' and e[1] == 'inv4':
                    pass    # after(2) of b1 relative to its entry: checked through time only
        if set(it.configuration) != ref.conf:
            errs.append('configuration %s, expected %s' % (it.configuration, sorted(ref.conf)))
        return errs


_D = {}


def expand(task):
    (kind, hist), last = task
    d = _D.get(kind) or _D.setdefault(kind, Driver(kind))
    res = {'transitions': 0, 'outcomes': collections.Counter(), 'violations': [], 'nviol': 0,
           'children': []}
    if last:
        return res
    for op in OPS:
        it, ref, meta, sync = d.build(hist)
        if op[0] in ('q', 'qd') and (len(ref.eq) >= 2 or (op[1] == 'adv' and len(ref.iq) >= 2)):
            continue
        if op[0] == 'clock' and ref.clock - ref.now >= CAP:
            continue
        errs = d.apply(it, ref, op, meta, sync)
        res['transitions'] += 1
        res['outcomes'][op[0]] += 1
        if op[0] in ('step', 'stepL'):
            for e in probes.LOG:
                if e[0] == 'w' and not isinstance(e[1], int):
                    res['outcomes']['shared guard text %s=%s' % (e[1], e[2])] += 1
                elif e[0] == 'w':
                    res['outcomes']['guard %s(%d)@%s=%s' % (ref.trans[e[1]]['tguard'] + (
                        ref.trans[e[1]]['source'], e[2]))] += 1
                if e[0] == 'adv':
                    res['outcomes']['clock moved inside a step'] += 1
        for e in errs:
            res['nviol'] += 1
            if len(res['violations']) < 5:
                res['violations'].append({'chart': kind, 'hist': [list(o) for o in hist],
                                          'op': list(op), 'detail': e})
        if not errs:
            res['children'].append(((kind, ref.canon()), (kind, hist + (op,))))
    return res


def run(tier, seed):
    t0 = _time.time()
    depth = DEPTH[tier]
    roots = []
    for k in CHARTS:
        d = Driver(k)
        it, ref, meta, sync = d.build(())
        roots.append(((k, ref.canon()), (k, ())))
    agg = harness.level_bfs(expand, roots, depth)
    import re
    viols = []
    for v in sorted(agg.violations, key=lambda v: len(v['hist'])):
        sig = 'C13:' + re.sub(r'\d+', '#', v['detail'])[:60]
        viols.append(harness.Violation(sig, 'C13 chart %s after %s op %s: %s'
                                       % (v['chart'], v['hist'], v['op'], v['detail']),
                                       {'check': 'C13', **v}))
    cov = {
        'programs': len(CHARTS), 'states': agg.states, 'transitions': agg.transitions,
        'traces_validated_against_impl': agg.transitions, 'exhaustive': True, 'state_space_closed': bool(agg.closed), 'depth': depth, 'closed_at_depth': agg.max_depth if agg.closed else None,
        'outcomes': dict(agg.outcomes),
        'samples': [{'chart': k, 'transitions': [(x['source'], x['target'], x['event'], x['tguard'])
                                                 for x in CHARTS[k]()['transitions']]} for k in CHARTS],
        'rule': 'BFS to the stated depth over {clock += 1|2|3, queue x|y|z|adv, queue with delay, execute_once} (ADV actions move '
                'the clock inside a step and then send delayed events); state = (configuration, entry/idle ages capped at %d, clock offset, '
                'pending events); every predicate value, time value and fired set compared with the '
                'reference time model' % CAP,
    }
    return harness.finish('C13', tier, seed, 'model_checking', cov, viols, [
        'integer times (exact arithmetic); predicates use d <= 3 so ages >= 4 are equivalent',
        'idle() inside a transition\'s own post-conditions/invariants is not constrained'], t0)


def replay(data):
    d = Driver(data['chart'])
    it, ref, meta, sync = d.build(())
    for op in [tuple(o) for o in data['hist']] + [tuple(data['op'])]:
        errs = d.apply(it, ref, op, meta, sync)
        print(op, '-> clock', it.clock.time, 'Interpreter.time', it.time, it.configuration, errs or '')
        if op[0] in ('step', 'stepL'):
            print('    log:', probes.LOG)
    print('recorded:', data['detail'])
    return 0
