"""C19 — BDD verdicts are sound.

Exhaustive bounded enumeration of scenarios built from the predefined steps in their documented
spelling: every block of <= 2 given/when steps from the action alphabet (optionally preceded by a
given-block), followed by one `then` step from every predefined pattern x its argument domain (true
and false assertions alike); two-block scenarios check that an earlier when-block does not leak into
the verdict.  Every scenario is run by execute_bdd (behave, in-process) and the status of each step
is read from behave's JSON report; the oracle executes the same actions on a plain Interpreter and
evaluates the asserted fact directly on the macro steps / interpreter state."""
import collections
import copy
import itertools
import types
import json
import os
import shutil
import tempfile
import time as _time

from mc import harness

from sismic.io import import_from_yaml
from sismic.interpreter import Interpreter
from sismic.model import Event
from sismic import testing

CHARTS = {
    'k1': '''
statechart:
  name: k1
  preamble: x = 0
  root state:
    name: root
    initial: a
    states:
    - name: a
      transitions:
      - event: go
        target: b
        action: |
          x = x + 1
          send('out', v=x)
      - guard: after(5)
        target: b
        action: send('timeout')
    - name: b
      on entry: y = 'in_b'
      transitions:
      - event: back
        target: a
      - event: end
        target: f
    - name: f
      type: final
''',
    'k2': '''
statechart:
  name: k2
  preamble: |
    n = 0
    last = None
    basket = None
  root state:
    name: top
    parallel states:
    - name: left
      initial: l1
      states:
      - name: l1
        transitions:
        - event: go
          target: l2
          action: |
            send('ping', level=1)
            seen = active('l1')
      - name: l2
        on entry: send('ping', level=2)
        transitions:
        - event: go
          target: l1
    - name: right
      initial: r1
      transitions:
      - event: set
        action: |
          n = n + event.amount
          last = event.amount
      - event: reset
        action: basket = event.items
      - event: add
        action: basket.append(1)
        guard: basket is not None
      states:
      - name: r1
        transitions:
        - event: ping
          target: r2
          action: looked = active('l2')
      - name: r2
        transitions:
        - guard: idle(2)
          target: r1
''',
    'k3': '''
statechart:
  name: k3
  root state:
    name: root
    initial: loop
    states:
    - name: loop
      initial: s1
      transitions:
      - event: pause
        target: paused
      states:
      - name: s1
        on entry: send('tick', n=1)
        transitions:
        - event: next
          target: s2
          action: looked = active('s1')
      - name: s2
        transitions:
        - event: next
          target: s3
      - name: s3
        transitions:
        - event: next
          target: s1
      - name: h
        type: shallow history
        memory: s1
    - name: paused
      transitions:
      - event: continue
        target: h
''',
}
ACTIONS = {
    'k1': ['I send event go', 'I send event back', 'I send event end', 'I wait 3 seconds', 'I wait 1 second',
           'I do nothing', 'I repeat "I send event go" 2 times', 'I send event go with v=7'],
    'k2': ['I send event go', 'I send event set with amount=2', 'I send event set with amount=5',
           'I wait 2 seconds', 'I do nothing', 'I repeat "I send event go" 2 times',
           'I send event set\n      | parameter | value |\n      | amount    | 3     |\n      | extra     | None  |',
           'I send event reset with items=[]', 'I send event add'],
    'k3': ['I send event next', 'I send event pause', 'I send event continue', 'I do nothing'],
}
# library scenarios that 'I reproduce "<name>"' replays (their own then-less run is part of the feature)
LIBRARY = {
    'k1': {'prep1': [('given', 'I send event go'), ('when', 'I send event back')],
           'prep2': [('when', 'I send event go'), ('when', 'I wait 3 seconds')],
           'prep3': [('given', 'I send event go')]},
    'k2': {'prep1': [('given', 'I send event set with amount=2'), ('when', 'I send event go')],
           'prep2': [('when', 'I send event go'), ('when', 'I send event go')],
           'prep3': [('given', 'I send event go')]},
    # the history memory is written, restored, and written again inside one when-block
    'k3': {'prep1': [('given', 'I send event pause'), ('when', 'I send event continue'),
                     ('when', 'I send event next'), ('when', 'I send event pause')],
           'prep2': [('given', 'I send event next'), ('given', 'I send event pause'),
                     ('when', 'I send event continue'), ('when', 'I send event next'), ('when', 'I send event pause')],
           'prep3': [('given', 'I send event next')]},
}
THENS = {
    'k1': {'states': ['root', 'a', 'b', 'f'], 'events': ['out', 'timeout', 'nope'],
           'event_params': [('out', 'v', '1'), ('out', 'v', '2'), ('out', 'w', '1'), ('timeout', 'v', '1')],
           'variables': [('x', '0'), ('x', '1'), ('x', '2'), ('y', "'in_b'"), ('z', '0')],
           'expressions': ['x == 1', 'x > 1', 'x == 0', "active('b')", 'not active("a")']},
    'k2': {'states': ['top', 'l1', 'l2', 'r1', 'r2'], 'events': ['ping', 'nope'],
           'event_params': [('ping', 'level', '1'), ('ping', 'level', '2'), ('ping', 'level', '3')],
           'event_tables': [('ping', (('level', '2'),)), ('ping', (('level', '2'), ('zz', '3'))),
                            ('ping', (('level', '1'), ('level', '2')))],
           'variables': [('n', '0'), ('n', '2'), ('n', '7'), ('last', '5'), ('last', 'None'), ('basket', '[]'),
                         ('basket', '[1]')],
           'expressions': ['n == 2', 'n > 2', 'last is None', "active('r2')"]},
    'k3': {'states': ['root', 'loop', 's1', 's2', 's3', 'paused'], 'events': ['tick', 'nope'],
           'event_params': [('tick', 'n', '1'), ('tick', 'n', '2')],
           'variables': [('zz', '0')], 'expressions': ["active('s2')", "active('paused')"]},
}
_SC = {}


def chart(k):
    if k not in _SC:
        _SC[k] = import_from_yaml(CHARTS[k])
    return _SC[k]


def then_steps(k):
    t = THENS[k]
    out = []
    for s in t['states']:
        for pat in ('is entered', 'is not entered', 'is exited', 'is not exited', 'is active', 'is not active'):
            out.append(('state', s, pat))
    for e in t['events']:
        out.append(('event', e, 'is fired'))
        out.append(('event', e, 'is not fired'))
    for e, p, v in t['event_params']:
        out.append(('eventp', e, p, v))
    for e, rows in t.get('event_tables', []):
        out.append(('eventt', e, rows))
    out.append(('noevent',))
    for var, val in t['variables']:
        out.append(('var', var, 'equals', val))
        out.append(('var', var, 'does not equal', val))
    for ex in t['expressions']:
        out.append(('expr', ex, 'holds'))
        out.append(('expr', ex, 'does not hold'))
    out.append(('final', 'is in'))
    out.append(('final', 'is not in'))
    return out


def then_text(t):
    if t[0] == 'state':
        return 'state %s %s' % (t[1], t[2])
    if t[0] == 'event':
        return 'event %s %s' % (t[1], t[2])
    if t[0] == 'eventp':
        return 'event %s is fired with %s=%s' % (t[1], t[2], t[3])
    if t[0] == 'eventt':
        return 'event %s is fired\n      | parameter | value |\n%s' % (
            t[1], '\n'.join('      | %s | %s |' % r for r in t[2]))
    if t[0] == 'noevent':
        return 'no event is fired'
    if t[0] == 'var':
        return 'variable %s %s %s' % (t[1], t[2], t[3])
    if t[0] == 'expr':
        return 'expression "%s" %s' % (t[1], t[2])
    if t[0] == 'final':
        return 'statechart %s a final configuration' % t[1]


# ------------------------------------------------------------------------------------ oracle
class Oracle:
    def __init__(self, k):
        self.k = k
        self.it = Interpreter(chart(k))
        self.monitored = None
        self.snaps = None
        self.monitoring = False
        self.conf = set()       # active states, folded from what every macro step said it exited and entered
        # events really sent, as announced to a listener while the code runs (not as listed by the macro steps)
        self.announced = []
        self.it.attach(lambda ev: self.announced.append(ev.event) if ev.name == 'event sent' else None)
        self.sent_snaps = None

    def act(self, keyword, text):
        """perform one given/when step"""
        if text.startswith('I reproduce "'):
            for _, inner in LIBRARY[self.k][text.split('"')[1]]:
                self.act(keyword, inner)        # replayed with the keyword of the reproducing step
            self._after(keyword)
            return
        if text.startswith('I repeat "'):
            inner = text.split('"')[1]
            n = int(text.rsplit(' ', 2)[1])
            for _ in range(n):
                self.act(keyword, inner)
            self._after(keyword)
            return
        if text.startswith('I send event ') and '\n' in text:
            head, *rows = text.split('\n')
            params = {}
            for r in rows[1:]:
                cells = [c.strip() for c in r.strip().strip('|').split('|')]
                params[cells[0]] = eval(cells[1], {}, {})
            self.it.queue(Event(head[len('I send event '):].strip(), **params))
        elif text.startswith('I send event '):
            rest = text[len('I send event '):]
            if ' with ' in rest:
                name, pv = rest.split(' with ')
                p, v = pv.split('=')
                self.it.queue(Event(name, **{p.strip(): eval(v.strip(), {}, {})}))
            else:
                self.it.queue(Event(rest))
        elif text.startswith('I wait '):
            self.it.clock.time += float(text.split()[2])
        self._after(keyword)

    def _after(self, keyword):
        n0 = len(self.announced)
        steps = self.it.execute()
        new_sent = [types.SimpleNamespace(name=e.name, data=copy.deepcopy(dict(e.data))) for e in self.announced[n0:]]
        for st in steps:
            for ms in st.steps:
                self.conf.difference_update(ms.exited_states)
                self.conf.update(ms.entered_states)
        if keyword == 'when':
            if not self.monitoring:
                self.monitoring = True
                self.monitored = []
                self.snaps = []
                self.sent_snaps = []
            self.monitored.extend(steps)
            self.sent_snaps.extend(new_sent)
            # what the macro steps said when they were returned (the facts a verdict is about), kept apart from
            # the live objects
            for st in steps:
                self.snaps.append(types.SimpleNamespace(steps=[types.SimpleNamespace(
                    entered_states=tuple(ms.entered_states), exited_states=tuple(ms.exited_states),
                    sent_events=[types.SimpleNamespace(name=e.name, data=copy.deepcopy(dict(e.data)))
                                 for e in ms.sent_events]) for ms in st.steps]))

    def then(self, t):
        """truth of the asserted fact"""
        self.monitoring = False
        it, mon = self.it, self.snaps
        if t[0] == 'state':
            s, pat = t[1], t[2]
            ent = any(s in ms.entered_states for st in mon for ms in st.steps)
            exi = any(s in ms.exited_states for st in mon for ms in st.steps)
            act = s in self.conf
            return {'is entered': ent, 'is not entered': not ent, 'is exited': exi, 'is not exited': not exi,
                    'is active': act, 'is not active': not act}[pat]
        sent = self.sent_snaps
        if t[0] == 'event':
            fired = any(e.name == t[1] for e in sent)
            return fired if t[2] == 'is fired' else not fired
        if t[0] == 'eventp':
            val = eval(t[3], {}, {})
            return any(e.name == t[1] and t[2] in e.data and e.data[t[2]] == val for e in sent)
        if t[0] == 'eventt':
            want = {}
            for p, v in t[2]:
                want[p] = eval(v, {}, {})        # later rows of the same parameter override earlier ones
            return any(e.name == t[1] and all(k in e.data and e.data[k] == v for k, v in want.items())
                       for e in sent)
        if t[0] == 'noevent':
            return not sent
        if t[0] == 'var':
            if t[1] not in it.context:
                return False
            eq = it.context[t[1]] == eval(t[3], {}, {})
            return eq if t[2] == 'equals' else not eq
        if t[0] == 'expr':
            ctx = {'active': lambda s: s in self.conf, 'time': it.time}
            v = bool(eval(t[1], ctx, dict(it.context)))
            return v if t[2] == 'holds' else not v
        if t[0] == 'final':
            return it.final if t[1] == 'is in' else not it.final

    def check_testing_predicates(self, k):
        """sismic.testing predicates agree with the contents of the macro steps"""
        errs = []
        mon = self.monitored or []
        for s in THENS[k]['states']:
            ent = any(s in st.entered_states for st in mon)
            exi = any(s in st.exited_states for st in mon)
            if testing.state_is_entered(mon, s) != ent:
                errs.append('testing.state_is_entered(%s) = %s, macro steps say %s' % (s, not ent, ent))
            if testing.state_is_exited(mon, s) != exi:
                errs.append('testing.state_is_exited(%s) = %s, macro steps say %s' % (s, not exi, exi))
        sent = [e for st in mon for e in st.sent_events]
        for e in THENS[k]['events']:
            f = any(x.name == e for x in sent)
            if testing.event_is_fired(mon, e) != f:
                errs.append('testing.event_is_fired(%s) = %s, macro steps say %s' % (e, not f, f))
        for e, p, v in THENS[k]['event_params']:
            val = eval(v, {}, {})
            f = any(x.name == e and x.data.get(p, None) == val and p in x.data for x in sent)
            if testing.event_is_fired(mon, e, {p: val}) != f:
                errs.append('testing.event_is_fired(%s, %s=%s) = %s, macro steps say %s' % (e, p, v, not f, f))
        for name in set(st.event.name for st in mon if st.event):
            if not testing.event_is_consumed(mon, name):
                errs.append('testing.event_is_consumed(%s) is False although a macro step consumed it' % name)
        if testing.event_is_consumed(mon, 'zz_never'):
            errs.append('testing.event_is_consumed(zz_never) is True')
        return errs


# ------------------------------------------------------------------------------------ scenarios
def scenarios(k, tier):
    """-> list of scenario = list of (keyword, text or then-tuple)"""
    acts = ACTIONS[k]
    blocks = [[a] for a in acts] + [[a, b] for a in acts for b in acts]
    if tier == 'thorough':
        blocks += [[a, b, c] for a in acts for b in acts for c in acts]
    thens = then_steps(k)
    out = []
    # one when-block + one then
    for blk in blocks:
        for t in thens:
            out.append([('when', a) for a in blk] + [('then', t)])
    # given-block (one step) + when-block (one step) + then
    givens = acts if tier == 'thorough' else acts[:4]
    for g in givens:
        for a in acts:
            for t in thens:
                out.append([('given', g), ('when', a), ('then', t)])
    if k == 'k3':
        # the history chart: one given step, then when-blocks of three steps (memory written, restored and written
        # again inside the monitored block)
        for g in acts:
            for blk in itertools.product(acts[:3], repeat=3):
                for t in thens:
                    if t[0] == 'state':
                        out.append([('given', g)] + [('when', a) for a in blk] + [('then', t)])
    if tier == 'thorough':      # two given steps
        for g in acts:
            for g2 in acts:
                for a in acts[:4]:
                    for t in thens:
                        out.append([('given', g), ('given', g2), ('when', a), ('then', t)])
    # two when-blocks separated by a (true) then: the first block must not leak into the verdict
    firsts = acts[:3] if tier == 'quick' else acts
    for a in firsts:
        for b in acts:
            for t in thens:
                if t[0] in ('state', 'event', 'eventp', 'eventt', 'noevent'):
                    out.append([('when', a), ('then', 'TRUE'), ('when', b), ('then', t)])
    # a given step after the when-block: its macro steps must not count for entered/exited/fired
    for a in firsts:
        for g in acts:
            for t in thens:
                if t[0] in ('state', 'event', 'eventp', 'eventt', 'noevent'):
                    out.append([('when', a), ('given', g), ('then', t)])
    # ... also when the when-block goes on after the given step
    inner = acts[:4] if tier == 'quick' else acts
    for a in firsts:
        for g in inner:
            for b in inner:
                for t in thens:
                    if t[0] in ('state', 'event', 'eventp', 'eventt', 'noevent'):
                        out.append([('when', a), ('given', g), ('when', b), ('then', t)])
    # reproduce: the given/when steps of a library scenario replayed as given, resp. as when
    for p in LIBRARY[k]:
        for t in thens:
            if t[0] in ('state', 'event', 'eventp', 'eventt', 'noevent', 'var', 'final'):
                out.append([('when', 'I reproduce "%s"' % p), ('then', t)])
                for a in acts[:3]:
                    out.append([('given', 'I reproduce "%s"' % p), ('when', a), ('then', t)])
    return out


def expected(k, sc):
    """run the oracle -> (list of (keyword, text, expected status), predicate problems)"""
    o = Oracle(k)
    steps = []
    failed = False
    problems = []
    for kw, x in sc:
        if kw in ('given', 'when'):
            steps.append((kw, x, 'skipped' if failed else 'passed'))
            if not failed:
                o.act(kw, x)
        else:
            if x == 'TRUE':
                x = ('final', 'is in') if o.it.final else ('final', 'is not in')
            if failed:
                steps.append((kw, then_text(x), 'skipped'))
                continue
            if o.monitored is not None:
                problems += o.check_testing_predicates(k)
            ok = o.then(x)
            steps.append((kw, then_text(x), 'passed' if ok else 'failed'))
            if not ok:
                failed = True
    return steps, problems


def work(task):
    k, idx, scs = task
    res = {'evaluations': 0, 'outcomes': collections.Counter(), 'found': [], 'nviol': 0, 'true': 0, 'false': 0}
    exp = []
    lines = ['Feature: generated %s %d' % (k, idx), '']
    for name, steps in LIBRARY[k].items():
        lines.append('  Scenario: %s' % name)
        for kw, text in steps:
            lines.append('    %s %s' % (kw.capitalize(), text))
        lines.append('')
    for i, sc in enumerate(scs):
        steps, problems = expected(k, sc)
        exp.append(steps)
        for pb in problems[:1]:
            res['nviol'] += 1
            if len(res['found']) < 5:
                res['found'].append({'chart': k, 'scenario': [(kw, t if isinstance(t, str) else then_text(t)) for kw, t in sc],
                                     'kind': 'testing-predicate', 'detail': pb})
        lines.append('  Scenario: s%d' % i)
        for kw, text, _ in steps:
            lines.append('    %s %s' % (kw.capitalize(), text))
        lines.append('')
    d = tempfile.mkdtemp(prefix='c19-', dir='/dev/shm' if os.path.isdir('/dev/shm') else None)
    try:
        fpath = os.path.join(d, 'g.feature')
        with open(fpath, 'w') as f:
            f.write('\n'.join(lines))
        out = os.path.join(d, 'out.json')
        from sismic.bdd import execute_bdd
        import io
        import contextlib
        buf = io.StringIO()
        with contextlib.redirect_stdout(buf), contextlib.redirect_stderr(buf):
            rc = execute_bdd(chart(k), [fpath], behave_parameters=['-f', 'json', '-o', out, '--no-summary'])
        data = json.load(open(out))
    finally:
        shutil.rmtree(d, ignore_errors=True)
    by = {}
    for feat in data:
        for el in feat.get('elements', []):
            by[el['name']] = el
    any_fail_expected = any(s[2] == 'failed' for st in exp for s in st)
    if (rc != 0) != any_fail_expected:
        res['nviol'] += 1
        res['found'].append({'chart': k, 'scenario': [], 'kind': 'exit-code',
                             'detail': 'execute_bdd returned %s, failing scenarios expected: %s' % (rc, any_fail_expected)})
    for i, steps in enumerate(exp):
        el = by.get('s%d' % i)
        res['evaluations'] += 1
        if el is None:
            res['nviol'] += 1
            continue
        got = [s.get('result', {}).get('status', 'skipped') for s in el['steps']]
        got = ['skipped' if g in ('untested', 'skipped') else g for g in got]
        want = [s[2] for s in steps]
        verdict = [s[2] for s in steps if s[0] == 'then'][-1]
        res['true' if verdict == 'passed' else 'false'] += 1
        res['outcomes'][steps[-1][1].split(' ')[0] + ':' + verdict] += 1
        if got != want:
            res['nviol'] += 1
            if len(res['found']) < 6:
                j = next(jj for jj, (a, b) in enumerate(zip(got, want)) if a != b) if len(got) == len(want) else 0
                msg = el['steps'][j].get('result', {}).get('error_message', '') if j < len(el['steps']) else ''
                if isinstance(msg, list):
                    msg = ' '.join(msg)
                res['found'].append({'chart': k, 'scenario': [(kw, t) for kw, t, _ in steps], 'kind': 'verdict',
                                     'detail': "step '%s %s' reported %s, the asserted fact makes it %s %s"
                                     % (steps[j][0], steps[j][1], got[j], want[j], ('[' + msg[:80] + ']') if msg else '')})
    return res


def run(tier, seed):
    t0 = _time.time()
    tasks = []
    per_file = 150
    total = 0
    for k in CHARTS:
        scs = scenarios(k, tier)
        total += len(scs)
        for i in range(0, len(scs), per_file):
            tasks.append((k, i // per_file, scs[i:i + per_file]))
    results = harness.pmap(work, tasks)
    viols = []
    ev = 0
    outcomes = collections.Counter()
    ntrue = nfalse = 0
    import re
    for r in results:
        ev += r['evaluations']
        outcomes.update(r['outcomes'])
        ntrue += r['true']
        nfalse += r['false']
        for v in r['found']:
            sig = 'C19:%s:%s' % (v['kind'], re.sub(r'"[^"]*"|\d+', '_', v['detail'])[:60])
            viols.append(harness.Violation(sig, 'C19 %s, chart %s, scenario %s: %s'
                                           % (v['kind'], v['chart'], v['scenario'], v['detail']), {'check': 'C19', **v}))
    viols.sort(key=lambda v: len(v.replay['scenario']))
    sample = scenarios('k1', tier)
    cov = {
        'evaluations': ev, 'distinct_nontrivial': ev, 'programs': len(CHARTS),
        'assertions_true': ntrue, 'assertions_false': nfalse, 'outcomes': dict(outcomes), 'exhaustive': True,
        'samples': [[(kw, t if isinstance(t, str) else then_text(t)) for kw, t in s]
                    for s in harness.pick_samples(sample, seed, 3)],
        'rule': 'every when-block of <= 2 steps over the action alphabet x every then pattern x argument domain; '
                'given+when+then; two when-blocks separated by a then; each scenario is distinct and its final then '
                'has an oracle-computed truth value (both truth values occur, see assertions_true/false)',
    }
    prefixes = set()
    for k in CHARTS:
        for sc in scenarios(k, tier):
            prefixes.add((k, tuple((kw, t) for kw, t in sc if kw != 'then' or t == 'TRUE')))
    return harness.finish('C19', tier, seed, 'model_checking', {**cov, 'states': len(prefixes), 'transitions': ev,
                                                                'traces_validated_against_impl': ev,
                                                                'distinct_action_sequences': len(prefixes)},
                          viols, ["notify meta-events are kept out of the 'event fired' scenarios",
                                  'behave stops a scenario at its first failed step: one verdict per when-block'], t0)


def replay(data):
    k = data['chart']
    sc = data['scenario']
    print('chart', k)
    for kw, t in sc:
        print('   ', kw.capitalize(), t)
    print('recorded:', data['detail'])
    return 0
