"""C10 — property-statechart monitoring: complete, ordered, fail-fast, non-intrusive.

Monitored charts: every skeleton chart (scheme S) whose fragments send() (immediately and with a
delay), notify() and move the clock (ADV).  For every (state, op) of the complete BFS:
 * clean run with a recording callable (attach), a recording property statechart
   (bind_property_statechart) and a never-final property statechart: the unified log of code
   fragments and meta-events must be exactly the sequence derived from the returned MacroStep, the
   property statechart must see the same stream with its clock == the monitored step time, and the
   run must equal the unmonitored run;
 * for EVERY i <= m (m = number of documented meta-events of the clean run) a property statechart
   that becomes final on the i-th meta-event: PropertyStatechartError must leave that very call and
   the log must be the clean log cut right after meta-event i."""
import collections
import re
import time as _time

from mc import harness, engine, schemes, probes
from mc.chartgen import skeletons, flatten, add_scheme_S, has_variant, describe, build_api

from sismic.exceptions import PropertyStatechartError
from sismic.interpreter import Interpreter
from sismic.model import Event, InternalEvent, MetaEvent

PLAN = {
    'quick': [(2, 4, 2)],
    'thorough': [(2, 4, 2), (5, 5, 2)],
}
DOCUMENTED = ['step started', 'step ended', 'event consumed', 'event sent', 'state exited',
              'state entered', 'transition processed']
ATTRS = {'step started': ('time',), 'step ended': (), 'event consumed': ('event',), 'event sent': ('event',),
         'state exited': ('state',), 'state entered': ('state',),
         'transition processed': ('source', 'target', 'event')}
KSTATE = {'count': 0, 'target': None}
IGN = {'ignore_contract': True}     # monitoring must not depend on how the monitored interpreter is configured
IGN_MAX = {'quick': 3, 'thorough': 4}


def make_spec(task):
    tree, scheme, ivar, k = task[:4]
    spec = add_scheme_S(flatten(tree, scheme, ivar), send_subset=True)
    for t in spec['transitions']:
        tid = t['tid']
        if tid % 3 == 1:
            t['action'] += "; P('note', 'u%d'); notify('u%d', w=%d, z=None)" % (tid % 2, tid % 2, tid)
        if tid % 3 == 2:
            t['action'] += "; P('send', 'd%d'); send('d%d', delay=5)" % (tid, tid)
        if tid % 4 == 0:
            t['action'] += "; ADV(2)"
    return spec


def frag_entries(code, first):
    """log entries a fragment produces, from its (generated) code text"""
    out = [first]
    for kind, name in re.findall(r"P\('(send|note)', '([^']+)'\)", code or ''):
        out.append((kind, name))
    m = re.search(r"ADV\((\d+)\)", code or '')
    if m:
        out.append(('adv', int(m.group(1))))
    return out


def ev_sig(e):
    if e is None:
        return None
    return (e.name, tuple(sorted((k, repr(v)) for k, v in e.data.items())))


def m_entry(e):
    """what the recording listener logs for a meta-event"""
    d = []
    for k in sorted(set(e.data) | set(ATTRS.get(e.name, ()))):
        # the documented way to read a parameter of a meta-event is attribute access (event.state, event.target...)
        try:
            v = getattr(e, k)
        except AttributeError:
            v = '<%s has no attribute %s>' % (e.name, k)
        d.append((k, ev_sig(v) if isinstance(v, Event) else v))
    return ('m', e.name, tuple(d))


def recorder(e):
    if e.name == 'delayed event sent':      # deprecated, undocumented: ignored (DESIGN.md §6)
        return
    probes.LOG.append(m_entry(e))


def R(event, time):
    if event.name == 'delayed event sent':
        return
    probes.LOG.append(('r',) + m_entry(event)[1:] + (time,))


def R2(event, time):
    if event.name == 'delayed event sent':
        return
    probes.LOG.append(('r2',) + m_entry(event)[1:] + (time,))


def K():
    KSTATE['count'] += 1
    return KSTATE['count'] == KSTATE['target']


def prop_chart(kind, user_names):
    from sismic.model import Statechart, CompoundState, BasicState, FinalState, Transition
    sc = Statechart('prop-' + kind)
    sc.add_state(CompoundState('p', initial='s'), None)
    sc.add_state(BasicState('s'), 'p')
    names = DOCUMENTED + sorted(user_names)
    if kind == 'watchdog':
        # sends itself a delayed event when it starts and fails when that event arrives; it has no transition
        # on any meta-event: only the execution triggered by a meta-event can make it notice the deadline
        sc.state_for('s').on_entry = "send('timeout', delay=2)"
        sc.add_state(FinalState('f'), 'p')
        sc.add_transition(Transition('s', 'f', event='timeout'))
        return sc
    if kind in ('record', 'record2'):
        for n in names + ['delayed event sent']:
            sc.add_transition(Transition('s', None, event=n, action='%s(event, time)' % ('R' if kind == 'record' else 'R2')))
    else:
        sc.add_state(FinalState('f'), 'p')
        for n in names:
            sc.add_transition(Transition('s', 'f', event=n, guard='K()'))
    return sc


def mk_prop(sc, clock=None):
    return Interpreter(sc, clock=clock, initial_context={'R': R, 'R2': R2, 'K': K})


def expected_log(R0, spec_by, step, none_call_time):
    """unified log (fragments + 'm' entries) documented for one execute_once call"""
    out = []
    if step is None:
        return [('m', 'step started', (('time', none_call_time),)), ('m', 'step ended', ())]
    out.append(('m', 'step started', (('time', step.time),)))
    if step.event is not None:
        out.append(('m', 'event consumed', (('event', ev_sig(step.event)),)))
    for ms in step.steps:
        sent = []
        for x in ms.exited_states:
            fe = frag_entries(spec_by['s'][x].get('on_exit'), ('ex', x))
            out += fe
            sent += [e for e in fe if e[0] in ('send', 'note')]
            out.append(('m', 'state exited', (('state', x),)))
        if ms.transition is not None:
            tid = R0.tid(ms.transition)
            fe = frag_entries(spec_by['t'][tid].get('action'), ('ac', tid))
            out += fe
            sent += [e for e in fe if e[0] in ('send', 'note')]
            out.append(('m', 'transition processed',
                        (('event', ev_sig(ms.event)), ('source', ms.transition.source),
                         ('target', ms.transition.target))))
        for x in ms.entered_states:
            fe = frag_entries(spec_by['s'][x].get('on_entry'), ('en', x))
            out += fe
            sent += [e for e in fe if e[0] in ('send', 'note')]
            out.append(('m', 'state entered', (('state', x),)))
        if [e[1] for e in sent] != [e.name for e in ms.sent_events]:
            out.append(('!', 'sent_events of the micro step %r differ from what the fragments sent %r'
                        % ([e.name for e in ms.sent_events], sent)))
        for kind, name in sent:
            ev = next(e for e in ms.sent_events if e.name == name)
            if kind == 'send':
                out.append(('m', 'event sent', (('event', ev_sig(ev)),)))
            else:
                out.append(('m', name, tuple(sorted((k, v) for k, v in ev.data.items()))))
    out.append(('m', 'step ended', ()))
    return out


def run_case(R0, hist, op, mode, target=None, user_names=()):
    """mode: 'plain' (no listener) | 'clean' (recorder + recording property + never-final property)
             | 'final' (recorder + property final at the target-th documented meta-event)"""
    probes.reset()
    it = R0.new_interpreter()
    probes.HOOKS['adv'] = lambda d: setattr(it.clock, 'time', it.clock.time + d)
    if op[0] != 'INIT':
        it.execute_once()
        while it.execute_once() is not None:
            pass
        for o in hist:
            R0.apply(it, o)
    KSTATE['count'], KSTATE['target'] = 0, None
    if mode in ('clean', 'final'):
        it.attach(recorder)
    if mode == 'clean':
        it.bind_property_statechart(prop_chart('record', user_names), interpreter_klass=mk_prop)
        it.bind_property_statechart(prop_chart('final', user_names), interpreter_klass=mk_prop)
        # the older way of binding, still supported: an interpreter instance instead of a statechart
        import warnings
        with warnings.catch_warnings():
            warnings.simplefilter('ignore', DeprecationWarning)
            it.bind_property_statechart(mk_prop(prop_chart('record2', user_names)))
    if mode == 'final':
        KSTATE['target'] = target
        it.bind_property_statechart(prop_chart('final', user_names), interpreter_klass=mk_prop)
    if mode == 'watchdog':
        it.attach(recorder)
        it.bind_property_statechart(prop_chart('watchdog', user_names), interpreter_klass=mk_prop)
        it.execute_once()       # nothing pending: the property statechart starts (and arms its timeout) now
    it.clock.time += 3
    call_time = it.clock.time
    probes.reset()
    step = exc = None
    try:
        if op[0] == 'INIT':
            step = it.execute_once()
            outcome = 'step'
        else:
            outcome, step, exc = R0.apply(it, op, drain=False)
    except PropertyStatechartError as e:
        outcome, exc = 'PropertyStatechartError', e
    except Exception as e:
        outcome, exc = 'crash:' + type(e).__name__, e
    probes.VAL.clear()
    log = list(probes.LOG)
    return {'log': log, 'outcome': outcome, 'exc': exc, 'step': step, 'it': it, 'call_time': call_time}


def plain_sig(R0, r):
    st = r['step']
    body = None
    if st is not None:
        body = (ev_sig(st.event), st.time,
                tuple((R0.tid(ms.transition) if ms.transition else None, tuple(ms.exited_states),
                       tuple(ms.entered_states), tuple(ev_sig(e) for e in ms.sent_events)) for ms in st.steps))
    return (r['outcome'], body, tuple(r['it'].configuration),
            [e for e in r['log'] if e[0] not in ('m', 'r', 'r2')])


def work(task):
    spec = make_spec(task)
    R0 = engine.Runner(spec, interp_kwargs=IGN if len(task) > 4 and task[4] else None)
    spec_by = {'s': {s['name']: s for s in spec['states']}, 't': {t['tid']: t for t in spec['transitions']}}
    user_names = {'u0', 'u1'}
    found = []
    extra = collections.Counter()

    def viol(ex, kind, msg, i=None):
        extra['nviol'] += 1
        if len(found) < 8:
            found.append({'kind': kind, 'hist': ex.hist, 'op': ex.op, 'detail': msg, 'final_at': i})

    def on_exec(Rr, ex):
        if ex.exc is not None:
            return
        hist = ex.hist or ()
        plain = run_case(R0, hist, ex.op, 'plain')
        clean = run_case(R0, hist, ex.op, 'clean', user_names=user_names)
        extra['clean_runs'] += 1
        if clean['exc'] is not None:
            viol(ex, 'clean', 'monitored run with never-final properties raised %s' % clean['outcome'])
            return
        if plain_sig(R0, plain) != plain_sig(R0, clean):
            viol(ex, 'intrusive', 'monitored run differs from the unmonitored run: %r vs %r'
                 % (plain_sig(R0, clean)[:3], plain_sig(R0, plain)[:3]))
        log = clean['log']
        unified = [e for e in log if e[0] not in ('r', 'r2')]
        exp = expected_log(R0, spec_by, clean['step'], clean['call_time'])
        if unified != exp:
            i = next((k for k, (a, b) in enumerate(zip(unified, exp)) if a != b), min(len(unified), len(exp)))
            viol(ex, 'stream', 'at position %d: observed %s, documented %s'
                 % (i, unified[max(0, i - 1):i + 2], exp[max(0, i - 1):i + 2]))
            return
        mstream = [e for e in log if e[0] == 'm']
        rstream = [e for e in log if e[0] == 'r']
        step_time = clean['step'].time if clean['step'] is not None else clean['call_time']
        want_r = [('r',) + e[1:] + (step_time,) for e in mstream]
        r2stream = [('r',) + e[1:] for e in log if e[0] == 'r2']
        if r2stream != want_r and rstream == want_r:
            i = next((k for k, (a, b) in enumerate(zip(r2stream, want_r)) if a != b), min(len(r2stream), len(want_r)))
            viol(ex, 'property-stream', 'property statechart bound as an interpreter instance saw %s, expected %s '
                 '(attributes + clock == step time %s)' % (r2stream[i:i + 1], want_r[i:i + 1], step_time))
        if rstream != want_r:
            i = next((k for k, (a, b) in enumerate(zip(rstream, want_r)) if a != b),
                     min(len(rstream), len(want_r)))
            viol(ex, 'property-stream', 'property statechart saw %s, expected %s (attributes + clock == step time %s)'
                 % (rstream[i:i + 1], want_r[i:i + 1], step_time))
        # a property statechart driven by its own delayed event (watchdog): armed one step earlier, its deadline
        # has passed when this call starts, so the call must fail at its very first meta-event
        w = run_case(R0, hist, ex.op, 'watchdog', user_names=user_names)
        extra['watchdog_runs'] += 1
        wlog = [e for e in w['log'] if e[0] != 'r']
        if w['outcome'] != 'PropertyStatechartError':
            viol(ex, 'watchdog', 'a property statechart whose own delayed event was due did not fail the call: %s'
                 % w['outcome'])
        elif wlog != unified[:1]:
            viol(ex, 'watchdog', 'the watchdog property failed, but only after %s' % (wlog[1:4],))
        documented = [k for k, e in enumerate(unified) if e[0] == 'm' and (e[1] in DOCUMENTED or e[1] in user_names)]
        extra['meta_events'] += len(documented)
        for i, pos in enumerate(documented, 1):
            f = run_case(R0, hist, ex.op, 'final', target=i, user_names=user_names)
            extra['final_at_runs'] += 1
            if f['outcome'] != 'PropertyStatechartError':
                viol(ex, 'not-raised', 'property final at meta-event %d (%s) but execute_once %s'
                     % (i, unified[pos][1], 'returned' if f['exc'] is None else 'raised ' + f['outcome']), i)
                continue
            flog = [e for e in f['log'] if e[0] != 'r']
            if flog != unified[:pos + 1]:
                viol(ex, 'not-fail-fast', 'property final at meta-event %d (%s): afterwards still ran %s'
                     % (i, unified[pos][1], flog[pos + 1:pos + 4] or 'log differs earlier'), i)
    res = engine.explore(spec, task[3], [], runner=R0, on_exec=on_exec)
    res['violations'] = [v for v in res['violations'] if v['category'] == 'crash']
    res['found'] = found
    res['nviol'] = extra['nviol'] + len(res['violations'])
    res['desc'] = describe(spec) + (' [ignore_contract]' if len(task) > 4 and task[4] else '')
    res['task'] = task
    res['extra'] = dict(extra)
    return res


def ghost_cases():
    """a piece of code announces something (notify / send) and then fails; the caller catches the error and goes on
    with the same interpreter: what the failed code announced belongs to the failed call - later calls must deliver
    exactly what *their* code announces, nothing else.  Every placement of the failing code (action, entry, exit) x
    what it announced x the placement of the next code that runs."""
    from sismic.model import Statechart, CompoundState, BasicState, Transition
    from sismic.exceptions import CodeEvaluationError
    out, n = [], 0
    # the failing code is the action of an internal transition: the failed call leaves the configuration as it was
    for said in ("notify('ghost', n=1)", "send('ghost')", "notify('ghost', n=1); send('ghost2')"):
        for nxt in ('action', 'on_entry', 'on_exit'):
            n += 1
            sc = Statechart('ghost')
            sc.add_state(CompoundState('root', initial='a'), None)
            sc.add_state(BasicState('a', on_exit="notify('left_a')" if nxt == 'on_exit' else None), 'root')
            sc.add_state(BasicState('c', on_entry="notify('in_c')" if nxt == 'on_entry' else None), 'root')
            sc.add_transition(Transition('a', None, event='boom', action=said + '; x = 1 / 0'))
            sc.add_transition(Transition('a', 'c', event='next', action="notify('acted')" if nxt == 'action' else None))
            it = Interpreter(sc)
            seen = []
            it.attach(lambda ev: seen.append(ev.name) if ev.name not in DOCUMENTED or ev.name == 'event sent' else None)
            it.execute_once()
            it.queue('boom')
            try:
                it.execute_once()
                out.append('case %d (action fails after %s): the failing code did not raise' % (n, said))
                continue
            except CodeEvaluationError:
                pass
            except Exception as e:
                out.append('case %d: %s instead of CodeEvaluationError' % (n, type(e).__name__))
                continue
            del seen[:]
            it.queue('next')
            steps = []
            try:
                while True:
                    st = it.execute_once()
                    if st is None:
                        break
                    steps.append(st)
            except Exception as e:
                out.append('case %d (action fails after %s; then %s): the next call raised %s' % (n, said, nxt, type(e).__name__))
                continue
            want = {'action': ['acted'], 'on_entry': ['in_c'], 'on_exit': ['left_a']}[nxt]
            listed = [e.name for s2 in steps for e in s2.sent_events]
            if seen != want or listed != want or it.configuration != ['root', 'c']:
                out.append('case %d (action fails after %s; then code in %s): listeners were told %s, the macro steps list %s, '
                           'the code of these calls announced %s; configuration %s'
                           % (n, said, nxt, seen, listed, want, it.configuration))
    return n, out


def run(tier, seed):
    t0 = _time.time()
    tasks = []
    for nmin, nmax, k in PLAN[tier]:
        for tree in skeletons(nmin, nmax):
            for ivar in ((0, 1) if has_variant(tree) else (0,)):
                tasks.append((tree, 'asc', ivar, k))
    for tree in skeletons(2, IGN_MAX[tier]):
        tasks.append((tree, 'asc', 0, 2, True))
    tasks.sort(key=lambda t: -len(repr(t[0])))
    results = harness.pmap(work, tasks)
    agg = harness.Agg()
    viols = []
    for r in sorted(results, key=lambda r: len(r['desc'])):
        agg.add(r, program=r['desc'])
        for v in r['found']:
            viols.append(harness.Violation(
                'C10:%s' % v['kind'],
                'C10 %s in %s after %s op %s: %s' % (v['kind'], r['desc'], v['hist'], v['op'], v['detail']),
                {'check': 'C10', 'task': schemes._jsonable(r['task']), 'hist': schemes._jsonable(v['hist']),
                 'op': schemes._jsonable(v['op']), 'final_at': v['final_at'], 'detail': v['detail']}))
        for v in r['violations']:
            viols.append(harness.Violation('C10:crash', 'C10 %s: %s' % (r['desc'], v['detail']),
                                           {'check': 'C10', 'task': schemes._jsonable(r['task']), **v}))
    n_ghost, ghosts = ghost_cases()
    for g in ghosts:
        viols.append(harness.Violation('C10:ghost', 'C10 announcements of failed code: ' + g,
                                       {'check': 'C10', 'ghost': True, 'detail': g}))
    tot = collections.Counter()
    for r in results:
        tot.update(r['extra'])
    cov = {
        'failed_code_cases': n_ghost,
        'programs': agg.programs, 'states': agg.states,
        'transitions': agg.transitions + tot['final_at_runs'],
        'traces_validated_against_impl': tot['clean_runs'] + tot['final_at_runs'],
        'exhaustive': agg.exhaustive, 'clean_runs': tot['clean_runs'], 'meta_events_checked': tot['meta_events'],
        'final_at_i_runs': tot['final_at_runs'],
        'bounds': [{'states_min': a, 'states_max': b, 'k': k} for a, b, k in PLAN[tier]],
        'outcomes': dict(agg.outcomes),
        'samples': [{'chart': r['desc'], 'clean_runs': r['extra'].get('clean_runs'),
                     'final_at_runs': r['extra'].get('final_at_runs')} for r in harness.pick_samples(results, seed, 3)],
        'rule': 'all skeletons x scheme S with send/delayed send/notify/ADV in fragments; complete BFS; per (state, op): '
                'unmonitored run, clean monitored run (recording callable + recording property statechart + never-final '
                'property), and one run per documented meta-event i with a property statechart final at i; the smaller '
                'skeletons once more on an interpreter created with ignore_contract=True',
    }
    return harness.finish('C10', tier, seed, 'model_checking', cov, viols, [
        "the deprecated, undocumented 'delayed event sent' meta-event is ignored",
        'the MacroStep tells the truth about what ran (C03)'], t0)


def replay(data):
    if data.get('ghost'):
        print(ghost_cases())
        return 0
    task = schemes._tupled(data['task'])
    spec = make_spec(task)
    R0 = engine.Runner(spec, interp_kwargs=IGN if len(task) > 4 and task[4] else None)
    hist = schemes._tupled(data['hist']) if data['hist'] else ()
    op = schemes._tupled(data['op'])
    print('chart:', describe(spec))
    mode = 'final' if data.get('final_at') else 'clean'
    r = run_case(R0, hist, op, mode, target=data.get('final_at'), user_names={'u0', 'u1'})
    print('outcome:', r['outcome'])
    for e in r['log']:
        print('   ', e)
    print('recorded:', data['detail'])
    return 0
