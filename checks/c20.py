"""C20 — async runner: no step unreported, no event lost, orderly lifecycle, under every schedule.

The real AsyncRunner runs on real threads under the scheduler of mc/sched.py: `threading` and
`time` are replaced by shims inside the namespace of sismic.runner.runner, and the queue / step
code of the Interpreter and the runner loop are preemptible at statement granularity
(sys.settrace).  For each driver every schedule with at most `bound` preemptions is executed and
judged by the oracle below."""
import collections
import os
import sys
import time as _time
import weakref

from mc import harness, sched

import sismic.runner.runner as runner_mod
from sismic.runner import AsyncRunner
from sismic.interpreter import Interpreter
from sismic.model import Statechart, CompoundState, BasicState, FinalState, Transition, Event

BOUNDS = {
    'quick': {'D1': 2, 'D2': 1, 'D3': 2, 'D4': 3, 'D5': 2, 'D6': 2, 'D7': 2, 'D8': 3, 'D9': 2, 'D10': 2, 'D11': 2, 'D12': 1, 'D13': 1, 'D14': 1, 'D15': 2},
    'thorough': {'D1': 3, 'D2': 2, 'D3': 3, 'D4': 4, 'D5': 3, 'D6': 3, 'D7': 3, 'D8': 4, 'D9': 3, 'D10': 3, 'D11': 3, 'D12': 2, 'D13': 2, 'D14': 2, 'D15': 3},
}
_CUR = [None]


def cur():
    return _CUR[0]


def install_shims():
    runner_mod.threading = sched.ShimThreading(cur)
    runner_mod.time = sched.ShimTime(cur)
    # locks created by the Interpreter (queue lock) must be visible to the scheduler as well
    import sismic.interpreter.default as default_mod
    if hasattr(default_mod, 'threading'):
        default_mod.threading = sched.ShimThreading(cur)


def make_chart():
    sc = Statechart('c20')
    sc.add_state(CompoundState('root', initial='a'), None)
    sc.add_state(BasicState('a'), 'root')
    sc.add_state(BasicState('b'), 'root')
    sc.add_state(FinalState('f'), 'root')
    sc.add_transition(Transition('a', 'b', event='e'))
    sc.add_transition(Transition('b', 'a', event='e'))
    sc.add_transition(Transition('a', 'f', event='fin'))
    sc.add_transition(Transition('b', 'f', event='fin'))
    sc.add_transition(Transition('a', None, event='arm', action="send('late', delay=1000)"))
    sc.add_transition(Transition('a', None, event='d', action='x = 1'))
    sc.add_transition(Transition('b', None, event='d', action='x = 1'))
    return sc


SC = make_chart()
TRACE_CODES = [Interpreter._queue_event.__code__, Interpreter._select_event.__code__,
               Interpreter._compute_steps.__code__,
               getattr(Interpreter.execute_once, '__wrapped__', Interpreter.execute_once).__code__,
               AsyncRunner._run.__code__, AsyncRunner.execute.__code__]


class World:
    """one execution's objects + ground-truth log"""

    def __init__(self, ex, execute_all=False, preinit=False):
        self.ex = ex
        self.it = Interpreter(SC)
        if preinit:
            self.it.execute_once()      # initial step done before the runner exists (single-threaded)
        self.executed = []          # macro steps execute_once really produced (in order)
        self.reported = []          # lists handed to after_execute
        orig = self.it.execute_once
        w = self

        def logged_execute_once():
            ex.note('execute_once:call')
            r = orig()
            if r is not None:
                w.executed.append(r)
            ex.note('execute_once:return', None if r is None else (r.event.data.get('s') if r.event else 'noevent'))
            return r
        self.it.execute_once = logged_execute_once

        class R(AsyncRunner):
            def before_run(self):
                ex.note('before_run')

            def after_run(self):
                ex.note('after_run')

            def before_execute(self):
                ex.note('before_execute')

            def after_execute(self, steps):
                w.reported.append(list(steps))
                ex.note('after_execute', len(steps))

            def __del__(self):
                pass
        self.runner = R(self.it, interval=0, execute_all=execute_all)
        self.runner._unpaused.tag = 'unpaused'
        self.queued = []            # serials whose queue() returned, in return order

    def consumed(self):
        return [st.event.data.get('s') for st in self.executed if st.event is not None]

    # ---- client operations (each logs call/return for the oracle)
    def queue(self, name, s, delay=None):
        self.ex.note('queue:call', s)
        ev = Event(name, s=s, delay=delay) if delay else Event(name, s=s)
        self.it.queue(ev)
        self.queued.append(s)
        self.ex.note('queue:return', s)

    def op(self, name):
        self.ex.note(name + ':call')
        getattr(self.runner, name)()
        self.ex.note(name + ':return')

    def await_consumed(self, n):
        """modelled blocking operation: enabled iff n events have been consumed"""
        self.ex.point('await', n, enabled_fn=lambda: len(self.consumed()) >= n)


# ------------------------------------------------------------------------------------ drivers
def D1(w):
    def client():
        w.op('start')
        w.queue('e', 1)
        w.queue('e', 2)
        w.await_consumed(2)
        w.op('stop')
    return [client], {'drain': [1, 2]}


def D2(w):
    w.it.queue(Event('d', s=1, delay=5))      # queued before anything runs (single-threaded)
    w.queued.append(1)

    def client():
        w.op('start')
        w.queue('e', 2)
        w.queue('e', 3)                       # races with the runner consuming event 2, behind it: the delayed event
        w.await_consumed(2)
        w.it.clock.time += 5
        w.ex.note('clock+5')
        w.await_consumed(3)
        w.queue('fin', 4)
        w.op('wait')
    return [client], {'drain': [1, 2, 3, 4], 'ends_by_itself': True, 'delayed': [1]}


def D3(w):
    def client():
        w.op('start')
        w.op('pause')
        w.queue('e', 1)
        w.queue('e', 2)
        w.ex.point('client-idle')
        w.op('unpause')
        w.await_consumed(2)
        w.op('stop')
    return [client], {'drain': [1, 2]}


def D4(w):
    def client():
        w.op('start')
        w.op('pause')
        w.op('stop')
    return [client], {'drain': []}


def D5(w):
    def client():
        w.queue('e', 1)
        w.op('start')
        w.queue('e', 2)
        w.queue('e', 3)
        w.await_consumed(3)
        w.op('stop')
    return [client], {'drain': [1, 2, 3], 'execute_all': True}


def D6(w):
    def c1():
        w.op('start')
        w.queue('e', 1)
        w.ex.point('await', 's=1', enabled_fn=lambda: 1 in w.consumed())
        w.op('stop')

    def c2():
        w.op('pause')
        w.queue('e', 2)
        w.op('unpause')
    return [c1, c2], {'drain': [1], 'two_clients': True}


def D7(w):
    # execute_all with a stop arriving while a cycle is draining the queue
    def client():
        w.queue('e', 1)
        w.queue('e', 2)
        w.queue('e', 3)
        w.op('start')
        w.op('stop')
    return [client], {'drain': [], 'execute_all': True}


def D8(w):
    # one client stops the runner while another one pauses it (and never unpauses)
    def c1():
        w.op('start')
        w.op('stop')

    def c2():
        w.op('pause')
    return [c1, c2], {'drain': [], 'two_clients': True}


def D9(w):
    # events queued while paused, then stop() without unpause(): nothing may be executed any more
    def client():
        w.op('start')
        w.op('pause')
        w.queue('e', 1)
        w.queue('e', 2)
        w.op('stop')
    return [client], {'drain': []}


def D10(w):
    # a delayed event becomes due when the clock moves; the client queues another event right then
    w.it.queue(Event('d', s=1, delay=5))
    w.queued.append(1)

    def client():
        w.op('start')
        w.it.clock.time += 5
        w.ex.note('clock+5')
        w.queue('e', 2)
        w.await_consumed(2)
        w.op('stop')
    return [client], {'drain': [1, 2], 'delayed': [1]}


def D11(w):
    # a second start() is refused; it must not un-pause a paused runner
    def client():
        w.op('start')
        w.op('pause')
        w.ex.note('start2:call')
        try:
            w.runner.start()
            w.ex.note('start2:accepted')
        except RuntimeError:
            w.ex.note('start2:refused')
        w.queue('e', 1)
        w.ex.point('client-idle')
        w.op('stop')
    return [client], {'drain': []}


def D12(w):
    # one and the same Event object queued three times while the runner is paused: three events
    ev = Event('e', s=1)

    def client():
        w.op('start')
        w.op('pause')
        for _ in range(3):
            w.ex.note('queue:call', 1)
            w.it.queue(ev)
            w.queued.append(1)
            w.ex.note('queue:return', 1)
        w.queue('e', 2)
        w.op('unpause')
        w.await_consumed(4)
        w.op('stop')
    return [client], {'drain': [1, 2], 'counts': {1: 3}}


def D13(w):
    # the statechart has sent itself a delayed event that is far from due: external events must keep flowing
    def client():
        w.op('start')
        w.queue('arm', 1)
        w.queue('e', 2)
        w.queue('e', 3)
        w.await_consumed(3)
        w.op('stop')
    return [client], {'drain': [1, 2, 3]}


def _start(w, tag='start'):
    w.ex.note(tag + ':call')
    try:
        w.runner.start()
        w.ex.note(tag + ':return')
    except RuntimeError:
        w.ex.note(tag + ':refused')


def D14(w):
    # stop() on a runner that was never started, then start(): stop() has returned, nothing may execute afterwards
    def client():
        w.queue('e', 1)
        w.op('stop')
        _start(w)
        w.ex.point('client-idle')
    return [client], {'drain': []}


def D15(w):
    # one client starts the runner while another one stops it
    def c1():
        w.queue('e', 1)
        _start(w)

    def c2():
        w.op('stop')
    return [c1, c2], {'drain': [], 'two_clients': True}


DRIVERS = {'D15': D15, 'D14': D14, 'D13': D13, 'D12': D12, 'D9': D9, 'D10': D10, 'D11': D11, 'D1': D1, 'D2': D2, 'D3': D3, 'D4': D4, 'D5': D5, 'D6': D6, 'D7': D7, 'D8': D8}
EXECUTE_ALL = {'D5', 'D7'}
PREINIT = {'D2', 'D3', 'D9', 'D10', 'D11', 'D12', 'D13', 'D14', 'D15'}


def run_one(dname, prefix):
    install_shims()
    ex = sched.Execution(prefix, TRACE_CODES)
    _CUR[0] = ex
    w = World(ex, execute_all=dname in EXECUTE_ALL, preinit=dname in PREINIT)
    bodies, meta = DRIVERS[dname](w)
    for i, b in enumerate(bodies):
        ex.spawn(b, 'client%d' % i)
    ex.run()
    ex.world, ex.meta = w, meta
    return ex


# ------------------------------------------------------------------------------------ oracle
def judge(ex):
    """-> list of (kind, message)"""
    out = []
    w, meta = ex.world, ex.meta
    log = ex.log
    for name, et, msg, tb in ex.errors():
        out.append(('exception', 'thread %s died with %s: %s' % (name, et, msg)))
    if ex.outcome != 'done':
        blocked = ', '.join('%s at %s' % (n, p[0]) for n, p in (ex.blocked_info or []))
        stuck = [s for s in w.queued if s not in w.consumed()]
        q = ''
        if hasattr(w.it, '_external_queue'):
            q = '; external queue: %s' % [(t, e.name, e.data.get('s')) for t, e in w.it._external_queue]
        out.append((ex.outcome, '%s: %s; queued but not consumed: %s (interpreter time %s)%s'
                    % (ex.outcome, blocked, stuck, w.it.time, q)))
    # (2) every executed macro step is handed exactly once, in order, to after_execute
    flat = [s for lst in w.reported for s in lst]
    if [id(s) for s in flat] != [id(s) for s in w.executed]:
        if ex.outcome == 'done' or len(flat) > len(w.executed):
            out.append(('unreported', 'execute_once produced %d macro steps (events %s), after_execute received %d (events %s)'
                        % (len(w.executed), w.consumed(), len(flat),
                           [s.event.data.get('s') if s.event else None for s in flat])))
    if not meta.get('execute_all'):
        big = [len(l) for l in w.reported if len(l) > 1]
        if big:
            out.append(('cycle', 'after_execute received %s steps in one cycle without execute_all' % big))
    # (3) events consumed at most once / exactly once when the driver drains
    cons = w.consumed()
    counts = meta.get('counts', {})
    dup = [s for s, c in collections.Counter(cons).items() if c > counts.get(s, 1)]
    if dup:
        out.append(('duplicate', 'events consumed more than once: %s' % dup))
    if ex.outcome == 'done':
        missing = [s for s in meta.get('drain', []) if cons.count(s) < counts.get(s, 1)]
        if missing:
            out.append(('lost', 'events %s were queued but never consumed (consumed: %s)' % (missing, cons)))
    # (4) FIFO among immediately-due events: queue() of y returned before queue() of x was called
    pos = {}
    for seq, tid, tag, data in log:
        if tag in ('queue:call', 'queue:return'):
            pos[(tag, data)] = seq
    order = {s: i for i, s in enumerate(cons)}
    delayed = set(meta.get('delayed', []))
    for y in w.queued:
        for x in w.queued:
            if x == y or y in delayed or x in delayed:
                continue
            if ('queue:return', y) not in pos or ('queue:call', x) not in pos:
                continue
            if pos[('queue:return', y)] < pos[('queue:call', x)] and x in order and y in order and order[x] < order[y]:
                out.append(('fifo', 'event %s was consumed before event %s although queue(%s) had returned first'
                            % (x, y, y)))
    # (5) lifecycle hooks
    nb = sum(1 for e in log if e[2] == 'before_run')
    na = sum(1 for e in log if e[2] == 'after_run')
    started = any(e[2] == 'start:return' for e in log)
    if started and ex.outcome == 'done' and (nb != 1 or na != 1):
        out.append(('hooks', 'before_run called %d times, after_run %d times' % (nb, na)))
    if nb > 1 or na > 1:
        out.append(('hooks', 'before_run called %d times, after_run %d times' % (nb, na)))
    # (6) once pause() has returned at most the cycle already under way is executed before unpause():
    #     a cycle may start after pause() returned only if the runner had got through the pause gate
    #     (_unpaused.wait) before; getting through the gate while paused (woken by stop()) and then
    #     executing is a violation
    if not meta.get('two_clients'):
        for seq, tid, tag, data in log:
            if tag != 'before_execute':
                continue
            pr = [e[0] for e in log if e[2] == 'pause:return' and e[0] < seq]
            if not pr:
                continue
            pr = pr[-1]
            if any(e[2] == 'unpause:call' and pr < e[0] < seq for e in log):
                continue
            gates = [e[0] for e in log if e[2] == 'gate' and e[3] == 'unpaused' and e[0] < seq]
            if gates and gates[-1] > pr:
                out.append(('pause', 'a cycle started after pause() had returned and without unpause(): the paused '
                            'runner was woken (by stop()) and executed'))
                break
        pr = next((e[0] for e in log if e[2] == 'pause:return'), None)
        uc = next((e[0] for e in log if e[2] in ('unpause:call', 'stop:call') and pr is not None and e[0] > pr), None)
        if pr is not None:
            hi = uc if uc is not None else len(log)
            n = sum(1 for e in log if e[2] == 'before_execute' and pr < e[0] < hi)
            if n > 1:
                out.append(('pause', '%d cycles started between pause() returning and unpause()/stop()' % n))
    # (7) nothing executes after stop() returned
    sr = [e[0] for e in log if e[2] == 'stop:return']
    if sr:
        late = [e for e in log if e[0] > sr[0] and e[2] in ('execute_once:call', 'before_execute', 'after_execute')]
        if late:
            out.append(('after-stop', '%s happened after stop() returned' % late[0][2]))
    # (8) the runner stops by itself once the statechart is final
    if meta.get('ends_by_itself') and ex.outcome == 'done' and not w.it.final:
        out.append(('final', 'wait() returned but the statechart is not final'))
    return out


def preempted_sites(ex):
    """for every deviation: what the preempted (previously running) thread was about to do"""
    sites = []
    running = None
    for i, (order, costs, c, (name, pending)) in enumerate(ex.decisions):
        if costs[c] > 0 and running is not None:
            # the running thread's pending op is recorded the next time it is chosen
            nxt = next((d[3][1] for d in ex.decisions[i + 1:] if d[3][0] == running), None)
            if nxt is not None:
                sites.append('%s:%s' % (running.rstrip('0123456789'), nxt[1][0] if nxt[0] == 'line' else nxt[0]))
        running = name
    return sites


def work(task):
    dname, bound, prefix = task
    res = {'executions': 0, 'points': 0, 'outcomes': collections.Counter(), 'found': [], 'nviol': 0,
           'kinds': collections.Counter(), 'max_decisions': 0}

    def on_result(ex, p):
        res['executions'] += 1
        res['points'] += len(ex.decisions)
        res['max_decisions'] = max(res['max_decisions'], len(ex.decisions))
        verdicts = judge(ex)
        res['outcomes'][ex.outcome + ':' + ','.join(map(str, ex.world.consumed()))] += 1
        if res['nviol'] > 50:
            return True          # enough counterexamples from this subtree
        if verdicts:
            # a failing schedule is replayed before it is trusted: same choices must give the same log
            again = run_one(dname, ex.choices())
            if [e[1:] for e in again.log] != [e[1:] for e in ex.log] or judge(again) != verdicts:
                verdicts = [('unstable', 'replaying the same schedule gave different observations (harness does not '
                             'own all nondeterminism): %s vs %s' % (verdicts[:1], judge(again)[:1]))]
        for kind, msg in verdicts:
            sites = preempted_sites(ex)
            res['nviol'] += 1
            res['kinds'][kind] += 1
            if len(res['found']) < 12:
                sc = next((e[0] for e in ex.log if e[2] == 'stop:call'), None)
                pds = sc is not None and any(e[2] == 'pause:return' and e[0] > sc for e in ex.log) and \
                    not any(e[2] == 'unpause:call' for e in ex.log)
                res['found'].append({'driver': dname, 'kind': kind, 'detail': msg, 'choices': ex.choices(),
                                     'sites': sites, 'deviations': ex.cost_before(len(ex.decisions)),
                                     'pause_during_stop': pds})
        return bool(verdicts)
    sched.explore(lambda p: run_one(dname, p), bound, prefix=prefix, on_result=on_result,
                  max_executions=200000)
    return res


def split_tasks(dname, bound):
    """first-level split: the default execution + one task per first deviation"""
    ex = run_one(dname, [])
    tasks = [(dname, 0, [])]
    if bound >= 1:
        ch = ex.choices()
        for i, (order, costs, c, _) in enumerate(ex.decisions):
            for alt in range(1, len(order)):
                tasks.append((dname, bound, ch[:i] + [alt]))
    return tasks


def work_sub(task):
    """explore below a prefix whose last choice is a deviation (bound counts the prefix too)"""
    dname, bound, prefix = task
    return work((dname, bound, prefix))


def run(tier, seed):
    t0 = _time.time()
    tasks = []
    for dname, bound in BOUNDS[tier].items():
        tasks += split_tasks(dname, bound)
    results = harness.pmap(work, tasks, chunksize=1)
    viols = []
    per = collections.defaultdict(lambda: collections.Counter())
    outcomes = collections.Counter()
    for task, r in zip(tasks, results):
        per[task[0]]['executions'] += r['executions']
        per[task[0]]['points'] += r['points']
        per[task[0]]['max_decisions'] = max(per[task[0]]['max_decisions'], r['max_decisions'])
        for k, v in r['outcomes'].items():
            outcomes[task[0] + ':' + k] += v
        for v in r['found']:
            feat = ''
            if v['kind'] in ('lost', 'fifo', 'deadlock', 'horizon') and any('_queue_event' in s for s in v['sites']):
                feat = ':preempted-in-_queue_event'
            if v['kind'] in ('deadlock', 'horizon') and v.get('pause_during_stop'):
                feat = feat or ':pause-during-stop'
            sig = 'C20:%s:%s%s' % (v['driver'], v['kind'], feat)
            viols.append(harness.Violation(
                sig, 'C20 driver %s, %d deviation(s) %s: %s' % (v['driver'], v['deviations'], v['sites'], v['detail']),
                {'check': 'C20', 'driver': v['driver'], 'choices': v['choices'], 'kind': v['kind'],
                 'detail': v['detail'], 'sites': v['sites']}))
    viols.sort(key=lambda v: (len(v.replay['sites']), len(v.replay['choices'])))
    nexec = sum(p['executions'] for p in per.values())
    cov = {
        'programs': len(per), 'states': sum(p['points'] for p in per.values()), 'transitions': nexec,
        'traces_validated_against_impl': nexec, 'exhaustive': True,
        'schedules_explored': nexec,
        'per_driver': {d: {'preemption_bound': BOUNDS[tier][d], 'schedules': p['executions'],
                           'scheduling_decisions': p['points'], 'longest_schedule': p['max_decisions']}
                       for d, p in per.items()},
        'distinct_outcomes': len(outcomes), 'outcomes': dict(outcomes),
        'samples': [{'driver': t[0], 'prefix_of_choices': t[2][-12:], 'prefix_length': len(t[2])}
                    for t in harness.pick_samples(tasks, seed, 3)],
        'rule': 'per driver: every schedule of the client thread(s) and the runner thread with at most the stated '
                'number of deviations (preemptions at Event/Thread/sleep operations and at every statement of the queue, '
                'step and runner-loop code); states = scheduling decisions taken, transitions = complete schedules executed '
                'and judged',
    }
    return harness.finish('C20', tier, seed, 'model_checking', cov, viols, [
        'the GIL is modelled at statement granularity in _queue_event, _select_event, _compute_steps, execute_once, '
        'AsyncRunner._run and AsyncRunner.execute, and at the operations of threading.Event/Thread and time.sleep',
        'interval = 0; sleep is a yield; virtual time'], t0)


def replay(data):
    ex = run_one(data['driver'], data['choices'])
    again = run_one(data['driver'], data['choices'])
    print('driver  :', data['driver'])
    print('outcome :', ex.outcome, ex.blocked_info or '')
    print('deviations at:', preempted_sites(ex))
    for e in ex.log:
        print('   ', e)
    print('verdicts:', judge(ex))
    print('deterministic replay:', [e[1:] for e in ex.log] == [e[1:] for e in again.log])
    print('recorded:', data['detail'])
    return 0
