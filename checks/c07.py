"""C07 — execution is deterministic and independent of declaration order.

(1) In-process differential: every skeleton chart (scheme S with counters and sends) is built in
    many declaration variants (permutations of sibling states, transition list given / reversed /
    rotated, add_state/add_transition calls vs YAML document order); every (state, op) of the base
    chart's complete BFS is replayed on every variant and on the base chart a second time; all
    macro-step signatures must be identical.
(2) Cross-process: an ordered digest of all signatures of an exploration (charts with history
    and orthogonal states, where set iteration order could leak) is recomputed in fresh
    subprocesses under several PYTHONHASHSEED values and must be equal."""
import hashlib
import itertools
import os
import subprocess
import sys
import time as _time

sys.path.insert(0, os.path.dirname(os.path.dirname(os.path.abspath(__file__))))

from mc import harness, engine, schemes, probes, VERIF_DIR
from mc.chartgen import (skeletons, flatten, add_scheme_S, has_variant, describe, reorder, Tree)

PLAN = {
    # (nmin, nmax, k)
    'quick': [(2, 4, 2), (5, 5, 1)],
    'thorough': [(2, 5, 2), (6, 6, 1)],
}
MIXED_MAX = {'quick': 4, 'thorough': 5}
DIGEST_PLAN = {'quick': (5, 7, 1), 'thorough': (4, 7, 1)}
SEEDS = {'quick': ['1', 'random'], 'thorough': ['0', '1', '2', '3', '4', '5', '6', 'random']}


def _two_histories_inside(tree):
    T = Tree(flatten(tree, 'asc', 0))
    for n in T.order:
        kids = T.children(n)
        if n != T.root and len([c for c in kids if T.kind(c) in ('HS', 'HD')]) == 2 and len(kids) >= 4:
            return True
    return False


def base_spec(task):
    tree, scheme, ivar, k = task[:4]
    spec = add_scheme_S(flatten(tree, scheme, ivar), send_subset=True, counter=True)
    # twins: for every fourth transition a second one with the same source, event, guard and target but a
    # higher priority and another action (which of the two is declared first must not matter)
    for t in list(spec['transitions']):
        if t['tid'] % 4 == 0:
            tid = len(spec['transitions'])
            spec['transitions'].append(dict(t, tid=tid, priority=1, action="P('ac', %d); n = n + 100" % tid))
    return spec


def variants(spec, lite=False):
    """-> list of (label, spec', builder)"""
    T = Tree(spec)
    if lite:
        def rev(n, kids):
            return kids[::-1]

        def rot(n, kids):
            return kids[1:] + kids[:1]
        return [('reversed/reversed/api', reorder(spec, child_perm=rev, trans_order='reversed'), 'api'),
                ('reversed/given/yaml', reorder(spec, child_perm=rev), 'yaml'),
                ('rotated/rotated/yaml', reorder(spec, child_perm=rot, trans_order='rotated'), 'yaml')]
    groups = [n for n in T.order if len(T.children(n)) > 1]
    perms_per_group = [list(itertools.permutations(T.children(g))) for g in groups]
    total = 1
    for p in perms_per_group:
        total *= len(p)
    combos = []
    if total <= 24:
        for combo in itertools.product(*perms_per_group):
            combos.append(dict(zip(groups, combo)))
    else:
        for g, perms in zip(groups, perms_per_group):
            for p in perms[:6]:
                combos.append({g: p})
        combos.append({g: tuple(reversed(T.children(g))) for g in groups})
    out = []
    orders = ['given', 'reversed', 'rotated']
    for i, combo in enumerate(combos):
        def perm(n, kids, combo=combo):
            return list(combo.get(n, kids))
        out.append(('perm%d/%s/%s' % (i, orders[i % 3], 'api' if i % 2 == 0 else 'yaml'),
                    reorder(spec, child_perm=perm, trans_order=orders[i % 3]),
                    'api' if i % 2 == 0 else 'yaml'))
    out.append(('identity/reversed/api', reorder(spec, trans_order='reversed'), 'api'))
    out.append(('identity/rotated/yaml', reorder(spec, trans_order='rotated'), 'yaml'))
    out.append(('identity/given/yaml', reorder(spec), 'yaml'))
    return out


def signature(R, outcome, step, it, leftovers):
    def ms_sig(ms):
        return (R.tid(ms.transition) if ms.transition is not None else None,
                tuple(ms.exited_states), tuple(ms.entered_states),
                tuple(e.name for e in ms.sent_events))
    if step is None:
        body = None
    else:
        body = (step.event.name if step.event else None, tuple(ms_sig(ms) for ms in step.steps))
    return (outcome, body, tuple(it.configuration), repr(it.context.get('n')),
            tuple((d.event.name if d.event else None, len(d.steps)) for d in leftovers))


def _run_on(R, hist, op):
    """replay hist then op on a fresh interpreter of runner R -> signature"""
    it = R.fresh(hist) if op[0] != 'INIT' else None
    if op[0] == 'INIT':
        it = R.new_interpreter()
        probes.reset()
        try:
            step = it.execute_once()
            outcome = 'step'
        except Exception as e:
            return ('crash:' + type(e).__name__,)
        left = []
        while True:
            d = it.execute_once()
            if d is None:
                break
            left.append(d)
        return signature(R, outcome, step, it, left)
    probes.reset()
    try:
        outcome, step, exc = R.apply(it, op)
    except Exception as e:
        return ('crash:' + type(e).__name__,)
    if exc is not None:
        # error step: drain with all guards false, like the explorer does
        try:
            it.execute_once()
        except Exception as e:
            return (outcome, 'crash-after:' + type(e).__name__)
        return (outcome, tuple(it.configuration), repr(it.context.get('n')))
    return signature(R, outcome, step, it, R.leftovers)


def run_on(R, hist, op):
    try:
        return _run_on(R, hist, op)
    except Exception as e:
        return ('crash:' + type(e).__name__, str(e)[:80])


def work(task):
    tree, scheme, ivar, k, mode = task
    spec = base_spec(task)
    R0 = engine.Runner(spec)
    digest = hashlib.sha1()
    extra = {'variants': 0, 'comparisons': 0}
    viol = []
    if mode in ('variants', 'variants-lite'):
        vs = []
        for label, vspec, builder in variants(spec, lite=mode == 'variants-lite'):
            try:
                vs.append((label, engine.Runner(vspec, builder)))
            except Exception as e:
                viol.append({'label': label, 'hist': None, 'op': ['BUILD'], 'base': 'built',
                             'variant': '%s: %s' % (type(e).__name__, e)})
        extra['variants'] = len(vs)
    else:
        vs = []

    def on_exec(R, ex):
        hist, op = ex.hist or (), ex.op
        ref = run_on(R0, hist, op)
        digest.update(repr(ref).encode())
        if mode not in ('variants', 'variants-lite'):
            return
        again = run_on(R0, hist, op)
        extra['comparisons'] += 1
        if again != ref:
            viol.append({'label': 'same chart, second run', 'hist': hist, 'op': op,
                         'base': ref, 'variant': again})
        for label, RV in vs:
            got = run_on(RV, hist, op)
            extra['comparisons'] += 1
            if got != ref and len(viol) < 10:
                viol.append({'label': label, 'hist': hist, 'op': op, 'base': ref, 'variant': got})
    res = engine.explore(spec, k, [], runner=R0, on_exec=on_exec)
    res['violations'] = [{'category': 'crash', 'detail': v['detail'], 'hist': v['hist'], 'op': v['op']}
                         for v in res['violations'] if v['category'] == 'crash']
    res['nviol'] = len(res['violations']) + len(viol)
    res['diffs'] = viol
    res['desc'] = describe(spec)
    res['task'] = task
    res['digest'] = digest.hexdigest()
    res['extra'] = extra
    return res


def digest_tasks(tier):
    nmin, nmax, k = DIGEST_PLAN[tier]
    tasks = []
    for tree in skeletons(nmin, nmax):
        r = repr(tree)
        if "'HD'" in r and "'O'" in r:
            tasks.append((tree, 'asc', 0, k, 'digest'))
    return tasks


def compute_digest(tier):
    results = harness.pmap(work, digest_tasks(tier), chunksize=4)
    h = hashlib.sha1()
    n = 0
    for r in results:
        h.update(r['digest'].encode())
        n += r['transitions']
    return h.hexdigest(), n, len(results), {r['desc']: r['digest'] for r in results}


def run(tier, seed):
    t0 = _time.time()
    tasks = []
    for nmin, nmax, k in PLAN[tier]:
        for tree in skeletons(nmin, nmax):
            for scheme in ('asc',):
                for ivar in ((0, 1) if has_variant(tree) else (0,)):
                    tasks.append((tree, scheme, ivar, k, 'variants'))
    # the deep-history + orthogonal skeletons (several states of equal depth restored at once) also get
    # all their declaration variants
    for t in digest_tasks(tier):
        tasks.append(t[:4] + ('variants-lite',))
    # three transitions at once, at least two regions involved (which error is raised when a step is both
    # non-deterministic and conflicting must not depend on the declaration order either)
    for tree in skeletons(3, MIXED_MAX[tier]):
        if "'O'" in repr(tree):
            tasks.append((tree, 'asc', 0, '3m', 'variants-lite'))
    # two history states in one compound state that can be left and re-entered (which of the two is declared
    # first must not matter)
    for n in (6, 7):
        for tree in skeletons(n, n, require='multihist', max_hist=2):
            if _two_histories_inside(tree):
                tasks.append((tree, 'asc', 0, 1, 'variants' if n == 6 or tier == 'thorough' else 'variants-lite'))
    tasks.sort(key=lambda t: -len(repr(t[0])))
    results = harness.pmap(work, tasks, chunksize=2)
    agg = harness.Agg()
    viols = []
    for r in sorted(results, key=lambda r: len(r['desc'])):
        agg.add(r, program=r['desc'])
        for v in r['diffs']:
            viols.append(harness.Violation(
                'C07:variant:' + v['label'].split('/')[0].rstrip('0123456789'),
                'C07 %s: variant %s differs after %s op %s:\n      base   : %s\n      variant: %s'
                % (r['desc'], v['label'], v['hist'], v['op'], v['base'], v['variant']),
                {'check': 'C07', 'task': schemes._jsonable(r['task']), 'label': v['label'],
                 'hist': schemes._jsonable(v['hist']), 'op': schemes._jsonable(v['op']),
                 'base': repr(v['base']), 'variant': repr(v['variant'])}))
        for v in r['violations']:
            viols.append(harness.Violation('C07:crash', 'C07 %s: %s' % (r['desc'], v['detail']),
                                           {'check': 'C07', 'task': schemes._jsonable(r['task']), **v}))
    # cross-process: digest under several hash seeds
    own, n_dig, n_charts, per_chart = compute_digest(tier)
    seeds_done = {}
    for hs in SEEDS[tier]:
        env = dict(os.environ, PYTHONHASHSEED=hs, PYTHONDONTWRITEBYTECODE='1')
        p = subprocess.run([sys.executable, os.path.join(VERIF_DIR, 'checks', 'c07.py'), '--digest', tier],
                           env=env, cwd=VERIF_DIR, stdout=subprocess.PIPE, stderr=subprocess.PIPE, text=True)
        lines = [l for l in p.stdout.splitlines() if l.startswith('DIGEST ')]
        if p.returncode != 0 or not lines:
            viols.append(harness.Violation('C07:digest-run', 'digest subprocess failed under PYTHONHASHSEED=%s: %s'
                                           % (hs, p.stderr[-300:]), {'check': 'C07', 'seed': hs}))
            continue
        d = lines[0].split()[1]
        seeds_done[hs] = d
        if d != own:
            detail = [l for l in p.stdout.splitlines() if l.startswith('CHART ')]
            theirs = dict(l.split(' ', 2)[1:][::-1] for l in detail)
            diff = [c for c in per_chart if theirs.get(c) != per_chart[c]][:3]
            viols.append(harness.Violation(
                'C07:hashseed', 'C07 run digest differs under PYTHONHASHSEED=%s (%s vs %s); first differing '
                'charts: %s' % (hs, d, own, diff), {'check': 'C07', 'seed': hs, 'charts': diff, 'tier': tier}))
    comparisons = sum(r['extra']['comparisons'] for r in results)
    cov = {
        'programs': agg.programs, 'states': agg.states, 'transitions': agg.transitions,
        'traces_validated_against_impl': comparisons, 'exhaustive': agg.exhaustive,
        'variant_charts_built': sum(r['extra']['variants'] for r in results),
        'variant_replays_compared': comparisons,
        'hash_seed_runs': seeds_done, 'digest_executions_per_run': n_dig, 'digest_charts': n_charts,
        'bounds': [{'states_min': a, 'states_max': b, 'k': k} for a, b, k in PLAN[tier]],
        'outcomes': dict(agg.outcomes),
        'samples': [{'chart': r['desc'], 'variants': r['extra']['variants'], 'states': r['states'],
                     'executions': r['transitions']} for r in harness.pick_samples(results, seed, 3)],
        'rule': 'base chart BFS (all skeletons, scheme S with counters and sends, <= k true guards); every '
                '(state, op) replayed on every declaration variant (sibling permutations x transition order x '
                'API/YAML builder) and twice on the base chart; signatures (event, transitions, exit/entry '
                'lists, sent events, context, configuration, or error class) must be equal; plus run digest '
                'over all deep-history + orthogonal skeletons recomputed in subprocesses per hash seed',
    }
    return harness.finish('C07', tier, seed, 'model_checking', cov, viols, [
        'when a composite has more than 24 sibling permutations in total, one sibling group at a time '
        '(first 6 permutations) plus full reversal are used',
        'a finite set of PYTHONHASHSEED values is enumerated'], t0)


def replay(data):
    if 'task' not in data:
        print(data)
        return 0
    task = schemes._tupled(data['task'])
    spec = base_spec(task)
    R0 = engine.Runner(spec)
    hist = schemes._tupled(data['hist']) if data.get('hist') else ()
    op = schemes._tupled(data['op'])
    print('chart  :', describe(spec))
    print('base   :', run_on(R0, hist, op))
    for label, vspec, builder in variants(spec):
        pass
    for label, vspec, builder in variants(spec) + variants(spec, lite=True):
        if label == data.get('label'):
            RV = engine.Runner(vspec, builder)
            print('variant:', label, [s['name'] for s in vspec['states']])
            print('        ', run_on(RV, hist, op))
    return 0


if __name__ == '__main__':
    sys.path.insert(0, VERIF_DIR)
    if len(sys.argv) >= 3 and sys.argv[1] == '--digest':
        d, n, c, per = compute_digest(sys.argv[2])
        print('DIGEST', d, n, c)
        for k, v in per.items():
            print('CHART', v, k)
