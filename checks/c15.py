"""C15 — bound statecharts: sent events reach every bound target once, in order.

Explicit-state BFS over systems of 2-3 interpreters and 2 recording callables: ops are queue(go)
to X, execute_once on X, clock +1, bind(X -> Y) (cycles and self-binding included), bind(X ->
callable), detach(k-th listener of X).  Every node's chart sends, per 'go', an immediate internal
event, a delayed one and a notify; receivers answer once (so A<->B cycles carry traffic).  A
reference model of every mailbox predicts which event each step consumes (identity by serial), what
it sends, and the exact global delivery log of the callables; every new state is drained."""
import collections
import time as _time

from mc import harness, probes

from sismic.model import (Statechart, CompoundState, BasicState, FinalState, Transition, Event,
                          InternalEvent)
from sismic.interpreter import Interpreter

DEPTH = {'quick': 5, 'thorough': 6}
SYSTEMS = {'two': ('A', 'B'), 'three': ('A', 'B', 'C')}
BASE = {'A': 1000, 'B': 2000, 'C': 3000}
CAP = 4
CALLS = []          # global delivery log of the recording callables: (callable id, name, s, hop, delay)


def chart(x):
    sc = Statechart(x, preamble='c = %d' % BASE[x])
    sc.add_state(CompoundState('root', initial='s', on_exit="c = c + 1; send('bye', s=c, hop=9)"), None)
    sc.add_state(BasicState('s'), 'root')
    sc.add_state(FinalState('f'), 'root')
    # (the event sent by this action carries an explicit delay=0)
    sc.add_transition(Transition('s', 'f', event='quit', action="c = c + 1; send('m', s=c, hop=5, delay=0)"))
    sc.add_transition(Transition(
        's', None, event='go',
        action="c = c + 1; send('m', s=c, hop=0); c = c + 1; send('d', s=c, hop=0, delay=1); "
               "notify('note', s=c); notify('sent', event=event)"))     # a user meta-event named like a piece of 'event sent'
    sc.add_transition(Transition('s', None, event='m', guard='event.hop == 0',
                                 action="c = c + 1; send('m', s=c, hop=1)"))
    sc.add_transition(Transition('s', None, event='m', guard='event.hop > 0', action='c = c + 0'))
    sc.add_transition(Transition('s', None, event='d', action="notify('got_d', s=event.s)"))
    return sc


class Cb:
    def __init__(self, cid):
        self.cid = cid

    def __call__(self, event):
        CALLS.append((self.cid, type(event).__name__, event.name, event.data.get('s'), event.data.get('hop'),
                      event.data.get('delay')))

    def deliver(self, event):
        self(event)


class Detacher:
    """recording callable that, on its first delivery, detaches the first other listener of its sender"""

    def __init__(self, st, x):
        self.st, self.x, self.armed = st, x, True

    def __call__(self, event):
        CALLS.append(('g', type(event).__name__, event.name, event.data.get('s'), event.data.get('hop'),
                      event.data.get('delay')))
        if self.armed:
            self.armed = False
            lsts = self.st['listeners'][self.x]
            others = [l for l in lsts if l is not self.me]
            if others:
                lsts.remove(others[0])
                self.st['its'][self.x].detach(others[0])


class RefNode:
    def __init__(self, x):
        self.x = x
        self.now = 0
        self.internal = []      # (due, seq, name, s, hop)
        self.external = []
        self.c = BASE[x]
        self.final = False
        self.targets = []       # ('i', node name) | ('f', callable id) | ('g', 0), in binding order
        self.g_armed = False


class Ref:
    def __init__(self, nodes):
        self.nodes = {x: RefNode(x) for x in nodes}
        self.clock = 0
        self.seq = 0
        self.serial = 0
        self.calls = []
        self.consumed = collections.Counter()
        self.queued = collections.Counter()

    def put(self, node, internal, due, name, s, hop):
        self.seq += 1
        q = node.internal if internal else node.external
        q.append((due, self.seq, name, s, hop))
        q.sort(key=lambda e: (e[0], e[1]))
        self.queued[(node.x, internal, name, s)] += 1

    def go(self, x, name='go'):
        self.serial += 1
        self.put(self.nodes[x], False, self.nodes[x].now, name, self.serial, None)
        return self.serial

    def step(self, x):
        """-> (consumed (name, s) or None, [sent (kind, name, s, hop, delay)])"""
        n = self.nodes[x]
        n.now = self.clock
        ev = None
        for q in (n.internal, n.external):
            if q and q[0][0] <= n.now:
                ev = q.pop(0)
                was_internal = q is n.internal
                break
        if ev is None:
            return None, []
        due, seq, name, s, hop = ev
        self.consumed[(x, was_internal, name, s)] += 1
        sends = []
        if n.final:
            pass                    # a terminated statechart consumes its events in transition-less steps
        elif name == 'quit':
            n.c += 1
            sends.append(('internal', 'm', n.c, 5, '0!'))    # action of the transition to the final state
            n.c += 1
            sends.append(('internal', 'bye', n.c, 9, 0))     # exit code of the root, run by the terminating step
            n.final = True
        elif name == 'go':
            n.c += 1
            sends.append(('internal', 'm', n.c, 0, 0))
            n.c += 1
            sends.append(('internal', 'd', n.c, 0, 1))
            sends.append(('meta', 'note', n.c, None, 0))
            sends.append(('meta', 'sent', None, None, 0))
        elif name == 'm' and hop == 0:
            n.c += 1
            sends.append(('internal', 'm', n.c, 1, 0))
        elif name == 'd':
            sends.append(('meta', 'got_d', s, None, 0))
        for kind, sn, ss, sh, sd in sends:
            if kind != 'internal':
                continue
            explicit0 = sd == '0!'
            sd = 0 if explicit0 else sd
            self.put(n, True, n.now + sd, sn, ss, sh)
            for tgt in list(n.targets):
                if tgt not in n.targets:
                    continue            # detached meanwhile: nothing is delivered after detach
                tk, tv = tgt
                if tk == 'i':
                    t = self.nodes[tv]
                    self.put(t, False, t.now + sd, sn, ss, sh)
                elif tk == 'f':
                    self.calls.append((tv, 'Event', sn, ss, sh, 0 if explicit0 else (sd if sd else None)))
                else:
                    # detaching callable: logs, and on its first delivery detaches the first other listener
                    self.calls.append(('g', 'Event', sn, ss, sh, 0 if explicit0 else (sd if sd else None)))
                    if n.g_armed:
                        n.g_armed = False
                        others = [o for o in n.targets if o != tgt]
                        if others:
                            n.targets.remove(others[0])
        return (name, s), sends

    def canon(self):
        out = []
        for x in sorted(self.nodes):
            n = self.nodes[x]

            def q(lst):
                return tuple((max(due - n.now, 0), name, hop) for due, _, name, _, hop in lst)
            out.append((q(n.internal), q(n.external), tuple(n.targets), n.g_armed, n.final, min(self.clock - n.now, 2)))
        return tuple(out)


class System:
    def __init__(self, kind):
        self.kind = kind
        self.names = SYSTEMS[kind]
        self.charts = {x: chart(x) for x in self.names}

    def ops(self):
        ops = [('clock', 1)]
        for x in self.names:
            ops += [('go', x), ('step', x)]
        ops += [('quit', 'A'), ('quit', 'B')]
        for x in self.names:
            for y in self.names:
                ops.append(('bind', x, ('i', y)))
        ops += [('bind', 'A', ('f', 0)), ('bind', 'A', ('f', 1)), ('bind', 'B', ('f', 0)), ('bind', 'A', ('g', 0))]
        for x in self.names:
            ops += [('detach', x, 0), ('detach', x, 1)]
        ops += [('detach', 'A', 2)]
        return ops

    def build(self, hist):
        del CALLS[:]
        its = {x: Interpreter(self.charts[x]) for x in self.names}
        for it in its.values():
            it.execute_once()
        ref = Ref(self.names)
        st = {'its': its, 'ref': ref, 'listeners': {x: [] for x in self.names}, 'cbs': [Cb(0), Cb(1)]}
        for op in hist:
            self.apply(st, op)
        return st

    def enabled(self, ref, op):
        k = op[0]
        if k in ('go', 'quit'):
            return len(ref.nodes[op[1]].external) < CAP and not (k == 'quit' and ref.nodes[op[1]].final)
        if k == 'bind':
            # the same callable / interpreter may be bound twice to A (two bindings: two deliveries, and detaching
            # one of them must remove that one, not its twin); not combined with the detaching callable, whose
            # reference bookkeeping identifies listeners by target
            tg = ref.nodes[op[1]].targets
            return len(tg) < (3 if op[1] == 'A' else 2) and (
                (op[2] not in tg and not (op[2][0] == 'g' and len(set(tg)) < len(tg)))
                or (op[1] == 'A' and op[2] in (('f', 0), ('i', 'B')) and tg.count(op[2]) < 2 and ('g', 0) not in tg))
        if k == 'detach':
            return len(ref.nodes[op[1]].targets) > op[2]
        if k == 'clock':
            return all(ref.clock - n.now < 2 for n in ref.nodes.values())
        if k == 'step':
            n = ref.nodes[op[1]]
            return len(n.internal) < CAP + 2 and all(len(ref.nodes[tv].external) < CAP + 2
                                                     for tk, tv in n.targets if tk == 'i')
        return True

    def apply(self, st, op):
        its, ref = st['its'], st['ref']
        errs = []
        k = op[0]
        if k == 'clock':
            ref.clock += op[1]
            for it in its.values():
                it.clock.time += op[1]
        elif k in ('go', 'quit'):
            s = ref.go(op[1], k)
            its[op[1]].queue(Event(k, s=s))
        elif k == 'bind':
            x, (tk, tv) = op[1], op[2]
            if tk == 'g':
                target = Detacher(st, x)
                ref.nodes[x].g_armed = True
            else:
                # callable 0 is a callable object the harness keeps; callable 1 is a bound method of an object that
                # nobody else refers to: a binding keeps its target alive
                target = its[tv] if tk == 'i' else (st['cbs'][tv] if tv == 0 else Cb(tv).deliver)
            lst = its[x].bind(target)
            if tk == 'g':
                target.me = lst
            st['listeners'][x].append(lst)
            ref.nodes[x].targets.append((tk, tv))
        elif k == 'detach':
            x, i = op[1], op[2]
            lst = st['listeners'][x].pop(i)
            its[x].detach(lst)
            ref.nodes[x].targets.pop(i)
        elif k == 'step':
            x = op[1]
            exp_ev, exp_sends = ref.step(x)
            try:
                step = its[x].execute_once()
            except Exception as e:
                return ['execute_once on %s raised %s: %s' % (x, type(e).__name__, str(e)[:80])]
            if exp_ev is None:
                if step is not None:
                    errs.append('%s: nothing due but the step consumed %r' % (x, step.event))
            elif step is None or step.event is None:
                errs.append('%s: expected to consume %s(s=%s), got %s' % (x, exp_ev[0], exp_ev[1], step))
            else:
                got = (step.event.name, step.event.data.get('s'))
                if got != exp_ev:
                    errs.append('%s consumed %s(s=%s), expected %s(s=%s)' % (x, got[0], got[1], exp_ev[0], exp_ev[1]))
                sent = [('internal' if isinstance(e, InternalEvent) else 'meta', e.name, e.data.get('s'),
                         e.data.get('hop'), e.data.get('delay', 0)) for e in step.sent_events]
                exp_sends = [(a, b, c2, d, 0 if e == '0!' else e) for a, b, c2, d, e in exp_sends]
                if sent != exp_sends:
                    errs.append('%s: MacroStep.sent_events %s, expected %s' % (x, sent, exp_sends))
        if not errs:
            for x in self.names:
                itx, n = its[x], ref.nodes[x]
                if hasattr(itx, '_internal_queue') and hasattr(itx, '_external_queue'):
                    try:
                        gi = [(t, e.name, e.data.get('s')) for t, e in itx._internal_queue]
                        ge = [(t, e.name, e.data.get('s')) for t, e in itx._external_queue]
                    except Exception:
                        continue
                    wi = [(due, name, s_) for due, _, name, s_, _ in n.internal]
                    we = [(due, name, s_) for due, _, name, s_, _ in n.external]
                    if gi != wi or ge != we:
                        errs.append('%s: queues hold internal %s / external %s, the reference mailboxes hold %s / %s'
                                    % (x, gi, ge, wi, we))
                        break
        if list(CALLS) != ref.calls:
            i = next((j for j, (a, b) in enumerate(zip(CALLS, ref.calls)) if a != b), min(len(CALLS), len(ref.calls)))
            errs.append('callables received %s, expected %s (first difference at delivery %d)'
                        % (CALLS[i:i + 3], ref.calls[i:i + 3], i))
        return errs

    def drain(self, st):
        errs = []
        ref = st['ref']
        for rnd in range(600):
            busy = False
            e = self.apply(st, ('clock', 1))
            for x in self.names:
                n = ref.nodes[x]
                if n.internal or n.external:
                    busy = True
                errs += self.apply(st, ('step', x))
                if errs:
                    return errs
            if not busy and not any(n.internal or n.external for n in ref.nodes.values()):
                break
        if any(n.internal or n.external for n in ref.nodes.values()):
            return errs + ['drain did not finish within 600 rounds (reference mailboxes not empty)']
        for x in self.names:
            if st['its'][x].execute_once() is not None:
                errs.append('%s still produces steps after the reference mailboxes are empty' % x)
        if ref.consumed != ref.queued and not errs:
            errs.append('after draining, queued %s but consumed %s'
                        % (sorted((ref.queued - ref.consumed).items())[:3], sorted((ref.consumed - ref.queued).items())[:3]))
        return errs


_S = {}


def expand(task):
    (kind, hist), last = task
    sysm = _S.get(kind) or _S.setdefault(kind, System(kind))
    res = {'transitions': 0, 'outcomes': collections.Counter(), 'violations': [], 'nviol': 0, 'children': []}

    def viol(h, op, msg):
        res['nviol'] += 1
        if len(res['violations']) < 5:
            res['violations'].append({'system': kind, 'hist': [list(map(_j, o)) for o in h], 'op': list(map(_j, op)),
                                      'detail': msg})
    st = sysm.build(hist)
    for e in sysm.drain(st):
        viol(hist, ('drain',), e)
    res['transitions'] += 1
    res['outcomes']['drain'] += 1
    if last:
        return res
    ref0 = sysm.build(hist)['ref']
    for op in sysm.ops():
        if not sysm.enabled(ref0, op):
            continue
        st = sysm.build(hist)
        errs = sysm.apply(st, op)
        res['transitions'] += 1
        res['outcomes'][op[0]] += 1
        for e in errs:
            viol(hist, op, e)
        if not errs:
            res['children'].append(((kind, st['ref'].canon()), (kind, hist + (op,))))
    return res


def _j(x):
    return list(x) if isinstance(x, tuple) else x


def _t(x):
    return tuple(_t(y) for y in x) if isinstance(x, list) else x


def run(tier, seed):
    t0 = _time.time()
    depth = DEPTH[tier]
    kinds = ['two', 'three'] if tier == 'thorough' else ['two', 'three']
    roots = [((k, Ref(SYSTEMS[k]).canon()), (k, ())) for k in kinds]
    # start from non-initial states too: A already holds the same target twice with another one in between (what
    # matters then - detach one twin, send, compare the order - lies within the depth from here)
    for twin in (('f', 0), ('i', 'B')):
        pre = (('bind', 'A', twin), ('bind', 'A', ('f', 1)), ('bind', 'A', twin))
        roots.append((('two', System('two').build(pre)['ref'].canon()), ('two', pre)))
    agg = harness.level_bfs(expand, roots, depth if tier == 'thorough' else depth)
    import re
    viols = []
    for v in sorted(agg.violations, key=lambda v: len(v['hist'])):
        viols.append(harness.Violation('C15:' + re.sub(r'\d+', '#', v['detail'])[:60],
                                       'C15 system %s after %s op %s: %s' % (v['system'], v['hist'], v['op'], v['detail']),
                                       {'check': 'C15', **v}))
    cov = {
        'programs': len(kinds), 'states': agg.states, 'transitions': agg.transitions,
        'traces_validated_against_impl': agg.transitions, 'exhaustive': True, 'state_space_closed': bool(agg.closed), 'depth': depth, 'closed_at_depth': agg.max_depth if agg.closed else None,
        'outcomes': dict(agg.outcomes),
        'samples': [{'system': k, 'ops': [list(map(_j, o)) for o in System(k).ops()]} for k in kinds],
        'rule': 'BFS to the stated depth over {queue go, execute_once, clock+1, bind to interpreter (incl. itself and '
                'cycles) / callable, detach k-th listener} on 2 and 3 interpreters; <= 2 listeners per interpreter, '
                'queues capped at %d while exploring; states canonicalised by mailbox contents (relative due, name, hop) '
                'and binding lists; every step and every callable delivery compared with the reference mailboxes; '
                'drain at every state' % CAP,
    }
    return harness.finish('C15', tier, seed, 'model_checking', cov, viols, [
        'delivery order is observed globally through the recording callables and per receiver through consumption order',
        'due time of a forwarded event = receiver\'s Interpreter.time at delivery + delay'], t0)


def replay(data):
    sysm = System(data['system'])
    st = sysm.build(())
    for op in [_t(o) for o in data['hist']] + [_t(data['op'])]:
        if op[0] == 'drain':
            print('drain ->', sysm.drain(st))
        else:
            print(op, '->', sysm.apply(st, op) or 'ok', ' callables:', CALLS[-3:])
    print('recorded:', data['detail'])
    return 0
