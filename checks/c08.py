"""C08 — contracts are checked at the documented points; failures raise the right error.

Every state and every transition of every skeleton chart (scheme S) carries 2 preconditions,
2 postconditions and 2 invariants, each a logging probe C(cid, __old__.v, v); the counter v is kept three
times in the context (rebound int, list grown in place, attribute of a plain object) and __old__ must
show all three as they were.  For every
(state, op) of the complete BFS: the clean run's combined log of code fragments and condition
evaluations must be exactly the documented sequence; then, for EVERY j, the run is repeated with
the j-th condition evaluation returning False (exhaustive single-fault injection): the right
exception class, owner and condition must be raised and the log must be the clean log cut
right after evaluation j."""
import collections
import time as _time

from mc import harness, engine, schemes, probes
from mc.chartgen import skeletons, flatten, add_scheme_S, has_variant, describe, HIST

from sismic.exceptions import (ContractError, PreconditionError, PostconditionError, InvariantError,
                               NonDeterminismError, ConflictingTransitionsError)

PLAN = {
    'quick': [(2, 4, 2)],
    'thorough': [(2, 4, 2), (5, 5, 2)],
}
KINDS = (('pre', PreconditionError), ('post', PostconditionError), ('inv', InvariantError))
ERR = {'pre': 'PreconditionError', 'post': 'PostconditionError', 'inv': 'InvariantError'}


def cond(owner, kind, i):
    cid = '%s:%s%d' % (owner, kind, i)
    if kind == 'pre':
        return "C(%r, None, NOWV(v, l, o))" % cid
    return "C(%r, OLDV(__old__), NOWV(v, l, o))" % cid


class Box:
    """a plain (hashable, mutable) user object kept in the context"""

    def __init__(self):
        self.n = 0


def NOWV(v, l, o):
    # the counter lives three times in the context: rebound int, list grown in place, attribute of an object
    return v if v == len(l) == o.n else ('inconsistent', v, len(l), o.n)


def OLDV(old):
    return old.v if old.v == len(old.l) == old.o.n else ('__old__ is torn', old.v, len(old.l), old.o.n)


EXTRA = {'BOX': Box, 'NOWV': NOWV, 'OLDV': OLDV}
BUMP = "v = v + 1; l.append(v); o.n = o.n + 1"


def make_spec(task):
    tree, scheme, ivar, k = task[:4]
    spec = add_scheme_S(flatten(tree, scheme, ivar))
    spec['preamble'] = 'v = 0; l = []; o = BOX()'
    for s in spec['states']:
        s['on_entry'] = "P('en', %r); " % s['name'] + BUMP
        s['on_exit'] = "P('ex', %r); " % s['name'] + BUMP
        for kind, _ in KINDS:
            s[kind] = [cond('s/' + s['name'], kind, i) for i in range(2)]
    for t in spec['transitions']:
        t['action'] = "P('ac', %d); " % t['tid'] + BUMP
        for kind, _ in KINDS:
            t[kind] = [cond('t/%d' % t['tid'], kind, i) for i in range(2)]
    return spec


def parse_v(log):
    """replay the counter: -> (v now, v at the latest entry of each state)"""
    v = 0
    entry_v = {}
    for e in log:
        if e[0] == 'en':
            entry_v[e[1]] = v
        if e[0] in ('en', 'ex', 'ac'):
            v += 1
    return v, entry_v


def expected_log(R, step, conf_after, v0, entry_v, arrangement):
    """documented sequence for one execute_once call; arrangement 'A': transition pre/inv after the
    exits (as implemented), 'B': before them (equally allowed by the statement)"""
    out = []
    v = v0
    entry_v = dict(entry_v)

    def conds(owner, kind, old):
        return [('c', '%s:%s%d' % (owner, kind, i), old, v) for i in range(2)]
    for ms in (step.steps if step is not None else []):
        t = ms.transition
        told = None
        if t is not None and arrangement == 'B':
            told = v
            out += conds('t/%d' % R.tid(t), 'pre', None) + conds('t/%d' % R.tid(t), 'inv', told)
        for x in ms.exited_states:
            out.append(('ex', x))
            v += 1
            out += conds('s/' + x, 'post', entry_v.get(x))
        if t is not None:
            tid = R.tid(t)
            if arrangement == 'A':
                told = v
                out += conds('t/%d' % tid, 'pre', None) + conds('t/%d' % tid, 'inv', told)
            out.append(('ac', tid))
            v += 1
            out += conds('t/%d' % tid, 'post', told) + conds('t/%d' % tid, 'inv', told)
        for x in ms.entered_states:
            out += conds('s/' + x, 'pre', None)
            entry_v[x] = v
            out.append(('en', x))
            v += 1
    for x in sorted(conf_after, key=lambda s: (R.T.depth(s), s)):
        out += conds('s/' + x, 'inv', entry_v.get(x))
    return out


def run_op(R, hist, op, fail_at):
    """fresh interpreter, replay hist cleanly, then op with the fail_at-th evaluation failing
    -> (log of the op, outcome, exception, step, interpreter, v0, entry_v)"""
    probes.reset()
    probes.CVAL['fail_at'] = None
    if op[0] == 'INIT':
        it = R.new_interpreter()
        v0, entry_v = 0, {}
    else:
        it = R.fresh(hist)
        v0, entry_v = parse_v(probes.LOG)
        if getattr(R, 'with_bystander', False):
            # a second interpreter of the same Statechart object, with contracts, driven through a shorter history
            # while the first one is alive: what __old__ shows is a matter of each interpreter alone
            if R.shadow is None:
                R.shadow = engine.Runner(R.spec, prebuilt=(R.sc, R.objs), extra_context=R.extra_context)
            keep = R.kept
            R._by = R.shadow.fresh(hist[:-1])
            R.kept = keep
            probes.VAL.clear()
    p = len(probes.LOG)
    probes.CVAL['count'] = 0
    probes.CVAL['fail_at'] = fail_at
    step = exc = None
    try:
        if op[0] == 'INIT':
            step = it.execute_once()
            outcome = 'step'
        else:
            outcome, step, exc = R.apply(it, op, drain=False)
    except ContractError as e:
        outcome, exc = type(e).__name__, e
    except Exception as e:
        outcome, exc = 'crash:' + type(e).__name__, e
    finally:
        probes.CVAL['fail_at'] = None
        probes.VAL.clear()
    return probes.LOG[p:], outcome, exc, step, it, v0, entry_v


def work(task):
    spec = make_spec(task)
    R0 = engine.Runner(spec, extra_context=EXTRA)
    R0.with_bystander = len(task) > 4 and task[4] == 'bystander'
    tr_by_tid = {t['tid']: t for t in spec['transitions']}
    found = []
    extra = collections.Counter()

    def viol(ex, kind, msg, j=None):
        extra['nviol'] += 1
        if len(found) < 8:
            found.append({'kind': kind, 'hist': ex.hist, 'op': ex.op, 'detail': msg, 'fail_at': j})

    def on_exec(R, ex):
        if ex.exc is not None and not ex.outcome.startswith('crash'):
            return     # NonDeterminism / Conflict: nothing runs (C04)
        hist = ex.hist or ()
        log, outcome, exc, step, it, v0, entry_v = run_op(R0, hist, ex.op, None)
        if exc is not None:
            viol(ex, 'clean', 'clean run (all conditions true) raised %s: %s' % (outcome, str(exc)[:80]))
            return
        conf_after = list(it.configuration)
        expA = expected_log(R0, step, conf_after, v0, entry_v, 'A')
        expB = expected_log(R0, step, conf_after, v0, entry_v, 'B')
        log = list(log)
        if log != expA and log != expB:
            i = next((k for k, (a, b) in enumerate(zip(log, expA)) if a != b), min(len(log), len(expA)))
            viol(ex, 'placement', 'evaluation order/placement differs at position %d: observed %s, documented %s'
                 % (i, log[max(0, i - 1):i + 3], expA[max(0, i - 1):i + 3]))
            return
        n = sum(1 for e in log if e[0] == 'c')
        extra['clean_runs'] += 1
        extra['condition_evaluations'] += n
        evals = [k for k, e in enumerate(log) if e[0] == 'c']
        for j in range(n):
            flog, foutcome, fexc, fstep, fit, _, _ = run_op(R0, hist, ex.op, j)
            extra['injections'] += 1
            cid = log[evals[j]][1]
            owner, ck = cid.split(':')
            kind = ck[:-1]
            if not isinstance(fexc, ContractError):
                viol(ex, 'no-error', 'evaluation %d (%s) returned False but execute_once %s'
                     % (j, cid, 'returned normally' if fexc is None else 'raised ' + foutcome), j)
                continue
            if foutcome != ERR[kind]:
                viol(ex, 'wrong-class', '%s failed: %s raised, expected %s' % (cid, foutcome, ERR[kind]), j)
            want_cut = log[:evals[j] + 1]
            if list(flog) != want_cut:
                viol(ex, 'not-immediate', '%s failed: code/conditions after the failing evaluation: %s'
                     % (cid, list(flog)[len(want_cut):len(want_cut) + 4] or 'log differs before it'), j)
            obj = fexc.obj
            if owner.startswith('s/'):
                ok = getattr(obj, 'name', None) == owner[2:]
                text = cond(owner, kind, int(ck[-1]))
            else:
                tid = int(owner[2:])
                ok = obj is not None and hasattr(obj, 'source') and R0.tid(obj) == tid
                text = cond(owner, kind, int(ck[-1]))
            if not ok:
                viol(ex, 'wrong-owner', '%s failed: error carries object %r' % (cid, obj), j)
            if fexc.condition != text:
                viol(ex, 'wrong-condition', '%s failed: error carries condition %r' % (cid, fexc.condition), j)
    res = engine.explore(spec, task[3], [], runner=R0, on_exec=on_exec)
    res['violations'] = [v for v in res['violations'] if v['category'] == 'crash']
    res['found'] = found
    res['nviol'] = extra['nviol'] + len(res['violations'])
    res['desc'] = describe(spec) + (' [bystander]' if R0.with_bystander else '')
    res['task'] = task
    res['extra'] = dict(extra)
    return res


def run(tier, seed):
    t0 = _time.time()
    tasks = []
    for nmin, nmax, k in PLAN[tier]:
        for tree in skeletons(nmin, nmax):
            for ivar in ((0, 1) if has_variant(tree) else (0,)):
                tasks.append((tree, 'asc', ivar, k))
    for tree in skeletons(2, 3 if tier == 'quick' else 4):
        tasks.append((tree, 'asc', 0, 1, 'bystander'))
    tasks.sort(key=lambda t: -len(repr(t[0])))
    results = harness.pmap(work, tasks)
    agg = harness.Agg()
    viols = []
    for r in sorted(results, key=lambda r: len(r['desc'])):
        agg.add(r, program=r['desc'])
        for v in r['found']:
            import re
            viols.append(harness.Violation(
                'C08:%s:%s' % (v['kind'], re.sub(r'[0-9]+', '#', v['detail'])[:50]),
                'C08 %s in %s after %s op %s: %s' % (v['kind'], r['desc'], v['hist'], v['op'], v['detail']),
                {'check': 'C08', 'task': schemes._jsonable(r['task']), 'hist': schemes._jsonable(v['hist']),
                 'op': schemes._jsonable(v['op']), 'fail_at': v['fail_at'], 'detail': v['detail']}))
        for v in r['violations']:
            viols.append(harness.Violation('C08:crash', 'C08 %s: %s' % (r['desc'], v['detail']),
                                           {'check': 'C08', 'task': schemes._jsonable(r['task']), **v}))
    tot = collections.Counter()
    for r in results:
        tot.update(r['extra'])
    cov = {
        'programs': agg.programs, 'states': agg.states,
        'transitions': agg.transitions + tot['injections'],
        'traces_validated_against_impl': tot['clean_runs'] + tot['injections'],
        'exhaustive': agg.exhaustive,
        'clean_runs': tot['clean_runs'], 'condition_evaluations': tot['condition_evaluations'],
        'fault_injections': tot['injections'],
        'bounds': [{'states_min': a, 'states_max': b, 'k': k} for a, b, k in PLAN[tier]],
        'outcomes': dict(agg.outcomes),
        'samples': [{'chart': r['desc'], 'clean_runs': r['extra'].get('clean_runs'),
                     'injections': r['extra'].get('injections')} for r in harness.pick_samples(results, seed, 3)],
        'rule': 'all skeletons x scheme S with 2 pre/2 post/2 inv probes on every state and transition; complete '
                'BFS incl. empty steps and None calls; clean log == documented sequence; then one run per '
                'condition evaluation with that evaluation failing',
    }
    return harness.finish('C08', tier, seed, 'model_checking', cov, viols, [
        'transition preconditions/invariants may be evaluated before or after the exit code of the source '
        '(both arrangements accepted), and __old__ of a transition is the context at that point',
        'the MacroStep tells the truth about what ran (C03)'], t0)


def replay(data):
    task = schemes._tupled(data['task'])
    spec = make_spec(task)
    R = engine.Runner(spec, extra_context=EXTRA)
    R.with_bystander = len(task) > 4 and task[4] == 'bystander'
    hist = schemes._tupled(data['hist']) if data['hist'] else ()
    op = schemes._tupled(data['op'])
    print('chart :', describe(spec))
    log, outcome, exc, step, it, v0, ev = run_op(R, hist, op, None)
    print('clean log:')
    for e in log:
        print('   ', e)
    if data.get('fail_at') is not None:
        flog, fo, fexc, _, _, _, _ = run_op(R, hist, op, data['fail_at'])
        print('with evaluation %d failing: %s %s' % (data['fail_at'], fo, getattr(fexc, 'condition', '')))
        for e in flog:
            print('   ', e)
    print('recorded:', data['detail'])
    return 0
