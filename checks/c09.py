"""C09 — contract checking is transparent.

(A) generated charts: every skeleton chart (scheme S with sends in actions/entry/exit and 2+2+2
    contract probes on every state and transition) is explored completely with contract checking
    on; every (state, op) is replayed with ignore_contract=True and the macro steps (per micro
    step), configurations, contexts, sent events and meta-event streams must be identical; with
    ignore_contract=True no condition may be evaluated and, when every condition is made false,
    no ContractError may be raised and the run must still be the same.
(B) shipped charts (elevator_contract.yaml, microwave_with_contracts.yaml) and a synthetic timed chart
    (after/idle guards on states with internal transitions) explored by BFS over
    their own event alphabet / clock moves, contracts on vs ignore_contract=True in lock-step
    (branches where a contract fails are not continued)."""
import collections
import os
import time as _time

from mc import harness, engine, schemes, probes, SISMIC_SRC
from mc.chartgen import skeletons, flatten, add_scheme_S, has_variant, describe

from sismic.exceptions import ContractError, NonDeterminismError, ConflictingTransitionsError
from sismic.interpreter import Interpreter
from sismic.io import import_from_yaml
from sismic.model import Event

PLAN = {
    'quick': [(2, 4, 2), (5, 5, 1)],
    'thorough': [(2, 5, 2), (6, 6, 1)],
}
SHIPPED_DEPTH = {'quick': 6, 'thorough': 8}
KINDS = ('pre', 'post', 'inv')


def make_spec(task):
    tree, scheme, ivar, k = task
    spec = add_scheme_S(flatten(tree, scheme, ivar), send_subset=True)
    spec['preamble'] = 'v = 0'
    names = [s['name'] for s in spec['states']]
    for i, s in enumerate(spec['states']):
        for key in ('on_entry', 'on_exit'):
            s[key] += '; v = v + 1'
        other = names[(i + 1) % len(names)]
        for kind in KINDS:
            # the conditions read the configuration in the middle of a step (active()), like real contracts do
            s[kind] = ["C('s/%s:%s%d', v, active(%r), active(%r))" % (s['name'], kind, j, s['name'], other)
                       for j in range(2)]
    for t in spec['transitions']:
        t['action'] += '; v = v + 1'
        if t['tid'] % 2 == 0:
            t['guard'] += " and (active(%r) or True)" % t['source']
        else:
            # a guard is only given the documented names: contract-only helpers must not leak into it
            t['guard'] += " and not [x for x in ('sent', 'received', '__old__') if x in globals()]"
        for kind in KINDS:
            t[kind] = ["C('t/%d:%s%d', v, active(%r))" % (t['tid'], kind, j, t['source']) for j in range(2)]
    return spec


def meta_sig(meta):
    out = []
    for e in meta:
        d = []
        for k2, v2 in sorted(e.data.items()):
            if isinstance(v2, Event):
                v2 = (type(v2).__name__, v2.name, sorted(v2.data.items()))
            d.append((k2, repr(v2)))
        out.append((e.name, tuple(d)))
    return out


def run_on(R, hist, op, all_false=False):
    probes.reset()
    probes.CVAL['fail_at'] = None
    probes.CVAL['all_false'] = all_false
    meta = []
    try:
        it = R.new_interpreter()
        it.attach(meta.append)
        if op[0] == 'INIT':
            step = it.execute_once()
            outcome, exc = 'step', None
            left = []
            while True:
                d = it.execute_once()
                if d is None:
                    break
                left.append(d)
        else:
            it.execute_once()
            while it.execute_once() is not None:
                pass
            for o in hist:
                R.apply(it, o)
            del meta[:]
            probes.reset()
            outcome, step, exc = R.apply(it, op)
            left = R.leftovers
        nevals = sum(1 for e in probes.LOG if e[0] == 'c')
        frag = [e for e in probes.LOG if e[0] != 'c']

        def ms_sig(ms):
            return (R.tid(ms.transition) if ms.transition is not None else None, tuple(ms.exited_states),
                    tuple(ms.entered_states), tuple((type(e).__name__, e.name) for e in ms.sent_events))
        body = None if step is None else (step.event.name if step.event else None, step.time,
                                          tuple(ms_sig(ms) for ms in step.steps),
                                          tuple(e.name for e in step.sent_events))
        sig = (outcome, body, tuple(it.configuration), repr(it.context.get('v')), frag,
               tuple((d.event.name if d.event else None, len(d.steps)) for d in left), meta_sig(meta))
        return sig, nevals
    except ContractError as e:
        return ('ContractError', type(e).__name__), -1
    except Exception as e:
        return ('crash', type(e).__name__, str(e)[:80]), -1
    finally:
        probes.CVAL['all_false'] = False


def work(task):
    spec = make_spec(task)
    RA = engine.Runner(spec)
    RB = engine.Runner(spec, interp_kwargs={'ignore_contract': True})
    # ... and with contracts that are not even Python: under ignore_contract=True their text is dead
    import copy as _copy
    bad = _copy.deepcopy(spec)
    for o in bad['states'] + bad['transitions']:
        for kind in KINDS:
            if o.get(kind):
                o[kind] = ['1 +* (' for _ in o[kind]]
    try:
        RBX = engine.Runner(bad, interp_kwargs={'ignore_contract': True})
        RBX.new_interpreter()
        rbx_error = None
    except Exception as e:
        RBX, rbx_error = None, '%s: %s' % (type(e).__name__, str(e)[:80])
    diffs = []
    extra = collections.Counter()

    def on_exec(R, ex):
        if ex.exc is not None:
            return
        hist = ex.hist or ()
        a, na = run_on(RA, hist, ex.op)
        b, nb = run_on(RB, hist, ex.op)
        bf, nbf = run_on(RB, hist, ex.op, all_false=True)
        extra['comparisons'] += 2
        extra['evaluations_with_contracts'] += max(na, 0)

        def d(kind, msg):
            extra['nviol'] += 1
            if len(diffs) < 8:
                diffs.append({'kind': kind, 'hist': hist, 'op': ex.op, 'detail': msg})
        if a != b:
            i = next((k for k, (x, y) in enumerate(zip(a, b)) if x != y), 0)
            d('differs', 'with contracts %r, ignore_contract %r' % (a[i], b[i]) if len(a) == len(b) == 7
              else 'with contracts %r, ignore_contract %r' % (a, b))
        if nb != 0:
            d('evaluated', '%d contract conditions evaluated under ignore_contract=True' % nb)
        if bf != b or nbf != 0:
            d('ignored-but-failing', 'ignore_contract=True with unsatisfied conditions: %r (evaluations %d)'
              % (bf if bf != b else 'same run', nbf))
        if RBX is None:
            d('ignored-but-invalid', 'ignore_contract=True, contracts that do not compile: %s' % rbx_error)
        else:
            bx, _ = run_on(RBX, hist, ex.op)
            extra['comparisons'] += 1
            if bx != b:
                d('ignored-but-invalid', 'ignore_contract=True, contracts that do not compile: %r instead of %r'
                  % (bx[:3], b[:3]))
    res = engine.explore(spec, task[3], [], runner=RA, on_exec=on_exec)
    res['violations'] = [v for v in res['violations'] if v['category'] == 'crash']
    res['found'] = diffs
    res['nviol'] = extra['nviol'] + len(res['violations'])
    res['desc'] = describe(spec)
    res['task'] = task
    res['extra'] = dict(extra)
    return res


# ------------------------------------------------------------------------------------ shipped charts
SHIPPED = {
    'elevator_contract': ('docs/examples/elevator/elevator_contract.yaml',
                          [('ev', 'floorSelected', (('floor', 0),)), ('ev', 'floorSelected', (('floor', 1),)),
                           ('ev', 'floorSelected', (('floor', 3),)), ('clock', 1), ('clock', 10)]),
    'microwave_with_contracts': ('docs/examples/microwave/microwave_with_contracts.yaml', None),
}
# (two context variables, box and view, name one list: evaluating conditions must not break the aliasing)
# a synthetic chart in the same lock-step exploration: time-dependent guards (after/idle) on states that stay
# active while their own internal transitions fire, and (satisfied) contracts that use every contract-only name
TIMED_YAML = """
statechart:
  name: timed
  preamble: |
    n = 0
    box = []
    view = box
  root state:
    name: root
    initial: alive
    contract:
      - always: n >= 0
    states:
      - name: alive
        contract:
          - before: n >= 0
          - always: idle(0) or not idle(0)
          - after: n >= __old__.n
        transitions:
          - event: ping
            action: |
              n = n + 1
              box.append(n)
              hits['ping'] += 1
              ring.append(n)
              bag.append(n)
            contract:
              - before: active('alive')
              - after: n == __old__.n + 1
              - always: after(0)
          - guard: idle(3)
            target: expired
            action: send('timeout')
            contract:
              - after: sent('timeout')
          - guard: after(7)
            target: old
          - event: move
            guard: len(view) == len(box)
            target: par
      - name: expired
        transitions:
          - event: ping
            target: alive
            contract:
              - before: received('ping')
      - name: old
        transitions:
          - guard: after(2)
            target: alive
      - name: par
        contract:
          - always: active('r1') and active('r2')
        parallel states:
          - name: r1
            contract:
              - always: after(0)
            transitions:
              - event: ping
                action: n = n + 1
              - guard: idle(2)
                target: alive
          - name: r2
            contract:
              - after: n >= __old__.n
            transitions:
              - event: tick
                action: n = n + 2
              - guard: idle(4) and n < 40
                action: n = n + 10
"""
SHIPPED['timed (synthetic)'] = (None, [('ev', 'ping', ()), ('ev', 'move', ()), ('ev', 'tick', ()),
                                       ('clock', 1), ('clock', 2)])
_CH = {}


def shipped(name):
    if name not in _CH:
        path, ops = SHIPPED[name]
        sc = import_from_yaml(TIMED_YAML) if path is None else import_from_yaml(filepath=os.path.join(SISMIC_SRC, path))
        if ops is None:
            ops = [('ev', e, ()) for e in sc.events_for()] + [('clock', 1)]
        _CH[name] = (sc, ops)
    return _CH[name]


def sh_apply(it, op, meta):
    del meta[:]
    if op[0] == 'clock':
        it.clock.time += op[1]
    else:
        it.queue(Event(op[1], **dict(op[2])))
    steps = []
    try:
        for _ in range(40):
            st = it.execute_once()
            if st is None:
                break
            steps.append((st.event.name if st.event else None, st.time,
                          tuple((str(ms.transition), tuple(ms.exited_states), tuple(ms.entered_states),
                                 tuple((e.name, repr(sorted(e.data.items()))) for e in ms.sent_events))
                                for ms in st.steps)))
    except ContractError as e:
        return ('ContractError', type(e).__name__, str(e.condition))
    except (NonDeterminismError, ConflictingTransitionsError) as e:
        # nothing ran (C04); both runs must agree on it, the branch is not continued
        return ('refused', type(e).__name__, tuple(steps), tuple(it.configuration), tuple(meta_sig(meta)))
    return ('ok', tuple(steps), tuple(it.configuration),
            repr(sorted((k, v) for k, v in it.context.items() if not callable(v))), tuple(meta_sig(meta)))


class Bag(list):
    """a container subclass whose constructor does not take the usual argument"""

    def __init__(self):
        super().__init__()


def exotic_context():
    # values a user may well keep in the context: container subclasses from the standard library and a home-made one
    b = Bag()
    b.append(1)
    return {'hits': collections.defaultdict(int), 'order': collections.OrderedDict(a=1), 'count': collections.Counter('ab'),
            'ring': collections.deque([1, 2], maxlen=3), 'bag': b, 'frozen': frozenset({1}), 'pair': (1, [2])}


def sh_build(name, hist, ignore):
    sc, _ = shipped(name)
    it = Interpreter(sc, ignore_contract=ignore,
                     initial_context=exotic_context() if name.startswith('timed') else None)
    meta = []
    it.attach(meta.append)
    it.execute_once()
    while it.execute_once() is not None:
        pass
    for op in hist:
        sh_apply(it, op, meta)
    return it, meta


def sh_key(it):
    ages = ()
    if hasattr(it, '_entry_time') and hasattr(it, '_idle_time'):
        ages = tuple(sorted((s, min(it.time - it._entry_time[s], 11), min(it.time - it._idle_time[s], 11))
                            for s in it.configuration))
    else:
        ages = (it.time,)
    return (tuple(it.configuration), repr(sorted((k, v) for k, v in it.context.items() if not callable(v))),
            ages, min(it.clock.time - it.time, 11))


def sh_expand(task):
    (name, hist), last = task
    res = {'transitions': 0, 'outcomes': collections.Counter(), 'violations': [], 'nviol': 0,
           'children': []}
    if last:
        return res
    _, ops = shipped(name)
    for op in ops:
        a_it, a_meta = sh_build(name, hist, False)
        b_it, b_meta = sh_build(name, hist, True)
        a = sh_apply(a_it, op, a_meta)
        try:
            b = sh_apply(b_it, op, b_meta)
        except Exception as e:
            b = ('crash', type(e).__name__)
        res['transitions'] += 1
        res['outcomes'][a[0]] += 1
        if b[0] not in ('ok', 'refused'):
            res['nviol'] += 1
            res['violations'].append({'chart': name, 'hist': [list(o) for o in hist], 'op': list(op),
                                      'detail': 'ignore_contract=True run raised %r' % (b,)})
            continue
        if a[0] == 'ContractError':
            continue       # the property only speaks about runs where no condition fails
        if a != b:
            i = next((k for k, (x, y) in enumerate(zip(a, b)) if x != y), 0)
            res['nviol'] += 1
            if len(res['violations']) < 5:
                res['violations'].append({'chart': name, 'hist': [list(o) for o in hist], 'op': list(op),
                                          'detail': 'with contracts %r, ignore_contract %r' % (a[i], b[i])})
            continue
        if a[0] == 'refused':
            continue
        res['children'].append(((name, sh_key(a_it)), (name, hist + (op,))))
    return res


def run(tier, seed):
    t0 = _time.time()
    tasks = []
    for nmin, nmax, k in PLAN[tier]:
        for tree in skeletons(nmin, nmax):
            for ivar in ((0, 1) if has_variant(tree) else (0,)):
                tasks.append((tree, 'asc', ivar, k))
    tasks.sort(key=lambda t: -len(repr(t[0])))
    results = harness.pmap(work, tasks, chunksize=2)
    agg = harness.Agg()
    viols = []
    import re
    for r in sorted(results, key=lambda r: len(r['desc'])):
        agg.add(r, program=r['desc'])
        for v in r['found']:
            viols.append(harness.Violation(
                'C09:%s' % v['kind'],
                'C09 %s in %s after %s op %s: %s' % (v['kind'], r['desc'], v['hist'], v['op'], v['detail']),
                {'check': 'C09', 'task': schemes._jsonable(r['task']), 'hist': schemes._jsonable(v['hist']),
                 'op': schemes._jsonable(v['op']), 'detail': v['detail']}))
        for v in r['violations']:
            viols.append(harness.Violation('C09:crash', 'C09 %s: %s' % (r['desc'], v['detail']),
                                           {'check': 'C09', 'task': schemes._jsonable(r['task']), **v}))
    roots = []
    for name in SHIPPED:
        try:
            it, _ = sh_build(name, (), False)
            sh_build(name, (), True)
        except Exception as e:
            viols.append(harness.Violation(
                'C09:shipped:' + name, 'C09 chart %s: the interpreter cannot even be started (contracts on, then off): '
                '%s: %s' % (name, type(e).__name__, str(e)[:150]),
                {'check': 'C09', 'chart': name, 'hist': [], 'op': ['start'], 'detail': '%s: %s' % (type(e).__name__, e)}))
            continue
        roots.append(((name, sh_key(it)), (name, ())))
    sagg = harness.level_bfs(sh_expand, roots, SHIPPED_DEPTH[tier])
    for v in sorted(sagg.violations, key=lambda v: len(v['hist'])):
        viols.append(harness.Violation('C09:shipped:' + v['chart'],
                                       'C09 shipped chart %s after %s op %s: %s'
                                       % (v['chart'], v['hist'], v['op'], v['detail']), {'check': 'C09', **v}))
    tot = collections.Counter()
    for r in results:
        tot.update(r['extra'])
    cov = {
        'programs': agg.programs + len(SHIPPED), 'states': agg.states + sagg.states,
        'transitions': agg.transitions + sagg.transitions,
        'traces_validated_against_impl': tot['comparisons'] + sagg.transitions,
        'exhaustive': agg.exhaustive, 'state_space_closed': False,
        'condition_evaluations_with_contracts_on': tot['evaluations_with_contracts'],
        'shipped': {'depth': SHIPPED_DEPTH[tier], 'states': sagg.states, 'ops_compared': sagg.transitions,
                    'outcomes': dict(sagg.outcomes)},
        'bounds': [{'states_min': a, 'states_max': b, 'k': k} for a, b, k in PLAN[tier]],
        'outcomes': dict(agg.outcomes),
        'samples': [{'chart': r['desc'], 'comparisons': r['extra'].get('comparisons')}
                    for r in harness.pick_samples(results, seed, 2)] + [{'shipped': list(SHIPPED)}],
        'rule': 'generated: complete BFS per chart with contracts on, each (state, op) replayed under '
                'ignore_contract=True (conditions true, and all false) and compared incl. meta-events; shipped: BFS '
                'to the stated depth over events_for()/parameters/clock moves, lock-step contracts on vs off',
    }
    return harness.finish('C09', tier, seed, 'model_checking', cov, viols, [
        'contract conditions are side-effect free (DESIGN.md §2)',
        'branches of the shipped charts on which a contract fails are not continued'], t0)


def replay(data):
    if 'chart' in data:
        name = data['chart']
        hist = [schemes._tupled(o) for o in data['hist']]
        for ign in (False, True):
            it, meta = sh_build(name, hist, ign)
            print('ignore_contract=%s:' % ign, sh_apply(it, schemes._tupled(data['op']), meta)[:4])
    else:
        task = schemes._tupled(data['task'])
        spec = make_spec(task)
        hist = schemes._tupled(data['hist']) if data['hist'] else ()
        op = schemes._tupled(data['op'])
        print('chart:', describe(spec))
        print('contracts on    :', run_on(engine.Runner(spec), hist, op))
        print('ignore_contract :', run_on(engine.Runner(spec, interp_kwargs={'ignore_contract': True}), hist, op))
    print('recorded:', data['detail'])
    return 0
