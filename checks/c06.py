"""C06 — history states restore exactly what was active."""
from mc import schemes

PLAN = {
    'quick': [(3, 5, 2), (6, 6, 1)],
    'thorough': [(3, 6, 2), (7, 7, 1)],
}
RULE = ('every skeleton containing a shallow or deep history state (any depth, under orthogonal '
        'regions, next to final states) x naming schemes x initial/memory variants, saturated '
        'transitions; complete BFS over (configuration, recorded memory); on every step entering a '
        'history state: restored set == reference snapshot (direct child / whole sub-configuration / '
        'default memory), parents before children, resulting configuration == prediction')
ASSUME = ['snapshot = active descendants of the parent when the exiting micro step began',
          'history states are entered from outside their parent (DESIGN.md §2 WF5)']


def run(tier, seed):
    # plus: compound states with two history states (shallow + deep, two shallow, ...)
    extra = [([(4, 6, 1), (7, 7, 1)] if tier == 'quick' else [(4, 6, 2), (7, 7, 1)],
              {'require': 'multihist', 'schemes': ('asc',)}),
             ([(8, 8, 1)], {'require': 'hd-under-orth', 'schemes': ('asc',), 'final': False}),
             # charts restructured with move_state (every nested composite state first lives under the root)
             ([(4, 5, 1)], {'require': 'history', 'schemes': ('asc',), 'decls': ('moved',)}),
             ([(6, 7, 1)], {'require': 'deep-history', 'schemes': ('desc',), 'decls': ('moved',)}),
             # a listener reads configuration / time / final on every meta-event (in the middle of the steps)
             ([(3, 5, 1)], {'schemes': ('asc',), 'decls': ('observed',)}),
             # a second interpreter of the same Statechart object is created and driven while the first one is alive
             ([(3, 5, 1)], {'schemes': ('asc',), 'decls': ('bystander',)})]
    return schemes.run('C06', tier, seed, PLAN[tier], ['history'], {'history'}, RULE, ASSUME,
                       require='history', extra_plans=extra)


def replay(data):
    return schemes.replay(data)
