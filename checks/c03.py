"""C03 — steps run to completion in documented order and the trace tells the truth."""
from mc import schemes

PLAN = {
    'quick': [(2, 4, 2), (5, 5, 1)],
    'thorough': [(2, 5, 2), (6, 6, 1)],
}
RULE = ('C02 state space (all skeletons x naming schemes x initial/memory variants, saturated '
        'transitions, BFS over (configuration, memory), <= k true guards) with logging probes on every '
        'entry/exit/action and send() in a third of the actions; charts declared in two opposite '
        'orders; per macro step: probe log == MacroStep lists, micro steps replay to the configuration, '
        'sent events == events sent by fragments, documented processing/exit/entry order as constraints '
        'against the reference prediction')
ASSUME = ['scope of a transition = child of the least common proper ancestor of source and target '
          '(external-transition semantics, as implemented and unchanged by this check)',
          'order among states that are neither ancestor-related nor orthogonal siblings is unconstrained']


def run(tier, seed):
    # plus: the larger skeletons in which a deep history state remembers an orthogonal state (several
    # states of equal depth are restored at once: their order is only visible from 7 states on)
    extra = [([(6, 7, 1)] if tier == 'quick' else [(6, 8, 1)], {'require': 'hd+o', 'schemes': ('asc',)}),
             # nested orthogonal states with pairs of transitions from different regions: the second
             # transition must find the first one completely stabilised (sibling regions entered)
             ([(6, 7, '2o')] if tier == 'quick' else [(6, 8, '2o')],
              {'require': 'nested-orth', 'schemes': ('asc',), 'history': False, 'final': False, 'decls': ('given',)}),
             # a listener reads configuration / time / final on every meta-event (in the middle of the steps)
             ([(2, 4, 1)], {'schemes': ('asc',), 'decls': ('observed',)}),
             # charts restructured with move_state (nested composite states first live under the root): every order
             # of the step relies on depths that must follow the edit
             ([(4, 5, 1)], {'schemes': ('asc', 'desc'), 'decls': ('moved',)})]
    return schemes.run('C03', tier, seed, PLAN[tier], ['trace', 'order'], {'trace', 'order', 'config'},
                       RULE, ASSUME, decls=('given', 'rev'), send=True, extra_plans=extra)


def replay(data):
    return schemes.replay(data)
