"""C02 — the active configuration is always a legal, stable statechart configuration."""
from mc import schemes

PLAN = {
    'quick': [(2, 5, 2), (6, 6, 1)],
    'thorough': [(2, 6, 2), (7, 7, 1)],
}
RULE = ('every skeleton (history, final, nested orthogonal) in the size range x 2 naming schemes x '
        'initial/memory variants, saturated with one guarded transition per well-formed '
        '(source, target|internal) pair; complete BFS over (configuration, history memory); in every '
        'state every set of <= k true guards + event, an unhandled event, an empty call; '
        'invariant = legal + stable + final-stays-final after every call that returns')
ASSUME = ['reference notion of legal/stable configuration (mc/refmodel.py) is DESIGN.md §2',
          'guards false == transition absent (skeleton x saturation reduction)']


def run(tier, seed):
    # plus: larger charts in which a deep history state lies below an orthogonal state (its memory must not
    # pick up states of sibling regions)
    extra = [([(7, 8, 1)], {'require': 'hd-under-orth', 'schemes': ('asc',), 'final': False}),
             # plus: the same charts reached through an editing history (placeholders queried, removed, names
             # re-used under other parents) - a statechart is well-formed however it was built
             ([(2, 5, 1)], {'schemes': ('asc',), 'decls': ('rebuilt',)}),
             ([(4, 6, 1)], {'schemes': ('asc',), 'decls': ('moved',)}),
             # plus: a listener that reads configuration / time / final on every meta-event, i.e. in the middle of
             # the steps: looking must not change what the interpreter reports afterwards
             ([(2, 5, 1)], {'schemes': ('asc',), 'decls': ('observed',)}),
             # plus: a second interpreter of the same Statechart object is created and driven while the first is alive
             ([(2, 4, 1)], {'schemes': ('asc',), 'decls': ('bystander',)}),
             # plus: nested orthogonal states with three transitions at once from pairwise orthogonal sources (a step
             # that must be refused must not be half executed into an illegal configuration)
             ([(7, 7, '3o')], {'require': 'nested-orth', 'schemes': ('asc',), 'history': False, 'final': False}),
             # plus: the smallest charts in which two sources of an inner orthogonal state conflict (one leaves it
             # but stays in its region of the orthogonal root) while a source of another region sorts between them
             ([(9, 10, '3o')], {'require': 'wrapped-orth', 'schemes': ('asc', 'desc'), 'history': False,
                                'final': False})]
    return schemes.run('C02', tier, seed, PLAN[tier], ['legal'], {'legal', 'stable', 'final'},
                       RULE, ASSUME, extra_plans=extra)


def replay(data):
    return schemes.replay(data)
