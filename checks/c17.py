"""C17 — renaming and copying states preserves behaviour.

Differential, lock-step over the complete BFS of a base chart (scheme S, history included):
 * rename: every single state, every pair and all states at once are renamed (rename_state) to
   order-preserving fresh names; the renamed chart must produce the base run with names
   substituted, and every transition must keep its internal/external nature and its ends;
 * copy: the chart is plugged (copy_from_statechart, source = its root) into two hosts (compound
   root / region of an orthogonal root) with an order-preserving renaming function; inside the
   host it must behave as alone, up to the renaming; both hosts are given the same guest object,
   which must come out unchanged (structure compared, and it is run as a third variant)."""
import itertools
import time as _time

from mc import harness, engine, schemes, probes
from mc.chartgen import skeletons, flatten, add_scheme_S, has_variant, describe, build_api

from sismic.model import Statechart, CompoundState, OrthogonalState, BasicState

PLAN = {
    'quick': [(2, 4, 2), (5, 5, 1)],
    'thorough': [(2, 5, 2), (6, 6, 1)],
}


def fresh_name(n):
    if len(n) == 4 and n[0] == 'n' and n[1:].isdigit():
        return n[:-1] + '5'    # n020 -> n025: keeps the relative order of all names
    return n + '5'             # overlap scheme: 'q' -> 'q5' < 'qr' (a digit sorts before every letter)


def base_spec(task):
    tree, scheme, ivar, k = task[:4]
    spec = add_scheme_S(flatten(tree, scheme, ivar), send_subset=True, counter=True)
    # twins that differ in their guard only (same ends, event, action, priority): both must survive a copy
    for t in list(spec['transitions']):
        if t['tid'] % 4 == 0:
            tid = len(spec['transitions'])
            spec['transitions'].append(dict(t, tid=tid, guard=t['guard'].replace('G(%d,' % t['tid'], 'G(%d,' % tid)))
    return spec


def sig(R, outcome, step, it, leftovers, ren, drop=()):
    """signature with state names mapped through `ren` (dict) and host states dropped"""
    def mp(names):
        return tuple(ren.get(x, x) for x in names if x not in drop)

    def ms_sig(ms):
        return (R.tid(ms.transition) if ms.transition is not None else None,
                mp(ms.exited_states), mp(ms.entered_states), tuple(e.name for e in ms.sent_events))
    body = None
    if step is not None:
        body = (step.event.name if step.event else None,
                tuple(x for x in (ms_sig(ms) for ms in step.steps) if x[0] is not None or x[1] or x[2]))
    return (outcome, body, tuple(sorted(mp(it.configuration))), repr(it.context.get('n')),
            tuple((d.event.name if d.event else None) for d in leftovers))


def _run_on(R, hist, op, ren, drop=()):
    if op[0] == 'INIT':
        it = R.new_interpreter()
        try:
            step = it.execute_once()
        except Exception as e:
            return ('crash:' + type(e).__name__, str(e)[:60])
        left = []
        while True:
            d = it.execute_once()
            if d is None:
                break
            left.append(d)
        return sig(R, 'step', step, it, left, ren, drop)
    it = R.fresh(hist)
    try:
        outcome, step, exc = R.apply(it, op)
    except Exception as e:
        return ('crash:' + type(e).__name__, str(e)[:60])
    if exc is not None:
        it.execute_once()
        return (outcome, tuple(sorted(ren.get(x, x) for x in it.configuration if x not in drop)))
    return sig(R, outcome, step, it, R.leftovers, ren, drop)


def run_on(R, hist, op, ren, drop=()):
    try:
        return _run_on(R, hist, op, ren, drop)
    except Exception as e:
        return ('crash:' + type(e).__name__, str(e)[:80])


def renamed_runner(spec, subset):
    sc, objs = build_api(spec)
    before = [(t.source, t.target, t.event, t.internal) for t in sc.transitions]
    # the statechart has been used before it is renamed (queries answered, one execution)
    for n in sc.states:
        sc.depth_for(n), sc.ancestors_for(n), sc.descendants_for(n)
    from sismic.interpreter import Interpreter
    Interpreter(sc, initial_context=probes.CONTEXT()).execute_once()
    ren = {}
    if subset == 'shift':
        # order-preserving renaming that RE-USES names: every state takes the former name of its successor
        # in name order (the last one gets a fresh name)
        names = sorted(s_['name'] for s_ in spec['states'])
        plan = [(names[-1], fresh_name(names[-1]))] + [(names[i], names[i + 1]) for i in range(len(names) - 2, -1, -1)]
        for old, new in plan:
            sc.rename_state(old, new)
        ren = {new: old for old, new in plan}
        after = [(ren.get(t.source, t.source), ren.get(t.target, t.target) if t.target else t.target,
                  t.event, t.internal) for t in sc.transitions]
        problems = []
        if before != after:
            problems.append('transitions changed by the shifting renaming')
        return engine.Runner(spec, prebuilt=(sc, None)), ren, problems
    for old in subset:
        sc.rename_state(old, fresh_name(old))
        ren[fresh_name(old)] = old
    after = [(ren.get(t.source, t.source), ren.get(t.target, t.target) if t.target else t.target,
              t.event, t.internal) for t in sc.transitions]
    problems = []
    if before != after:
        problems.append('transitions changed by renaming %s: %s' % (
            list(subset), [(b, a) for b, a in zip(before, after) if a != b][:2]))
    for s in spec['states']:
        nn = fresh_name(s['name']) if s['name'] in subset else s['name']
        o = sc.state_for(nn)
        for f in ('initial', 'memory'):
            want = s.get(f)
            if want is not None:
                want = fresh_name(want) if want in subset else want
                if getattr(o, f, None) != want:
                    problems.append('%s of %s is %s after renaming, expected %s' % (f, nn, getattr(o, f), want))
    try:
        sc.validate()
    except Exception as e:
        problems.append('validate() fails after renaming: %s' % e)
    return engine.Runner(spec, prebuilt=(sc, None)), ren, problems


def structure(sc):
    """everything a statechart says about itself, as plain data"""
    st = {}
    for n in sc.states:
        o = sc.state_for(n)
        st[n] = (type(o).__name__, sc.parent_for(n), tuple(sc.children_for(n)), getattr(o, 'initial', None),
                 getattr(o, 'memory', None), getattr(o, 'on_entry', None), getattr(o, 'on_exit', None))
    tr = [(t.source, t.target, t.event, t.guard, t.action, t.priority, t.internal) for t in sc.transitions]
    return st, tr


def host_runner(spec, kind, guest=None):
    if guest is None:
        guest, _ = build_api(spec)
    host = Statechart('host', preamble=spec.get('preamble'))
    if kind == 'compound':
        host.add_state(CompoundState('h', initial='slot'), None)
        host.add_state(BasicState('slot'), 'h')
        drop = {'h'}
    else:
        host.add_state(OrthogonalState('h'), None)
        host.add_state(BasicState('slot'), 'h')
        host.add_state(BasicState('zother'), 'h')
        drop = {'h', 'zother'}
    root = guest.root
    host.copy_from_statechart(guest, source=root, replace='slot', renaming_func=fresh_name)
    ren = {fresh_name(s['name']): s['name'] for s in spec['states']}
    ren['slot'] = root
    return engine.Runner(spec, prebuilt=(host, None)), ren, drop


def work(task):
    tree, scheme, ivar, k, mode = task
    spec = base_spec(task)
    R0 = engine.Runner(spec)
    names = [s['name'] for s in spec['states']]
    variants = []
    diffs = []
    if mode == 'rename':
        subsets = [(n,) for n in names] + list(itertools.combinations(names, 2)) + [tuple(names), 'shift']
        for sub in subsets:
            try:
                R, ren, problems = renamed_runner(spec, sub)
            except Exception as e:
                diffs.append({'label': 'rename %s' % (sub,), 'hist': None, 'op': ['BUILD'],
                              'base': 'renaming succeeds', 'variant': '%s: %s' % (type(e).__name__, e)})
                continue
            for pb in problems:
                diffs.append({'label': 'rename %s' % (sub,), 'hist': None, 'op': ['STRUCTURE'],
                              'base': 'unchanged', 'variant': pb})
            variants.append(('rename %s' % (sub,), R, ren, ()))
    else:
        # one and the same guest object is plugged into both hosts, and then run itself: copying
        # must leave the source sub-statechart as it was
        guest, gobjs = build_api(spec)
        before = structure(guest)
        for kind in ('compound', 'orthogonal'):
            try:
                R, ren, drop = host_runner(spec, kind, guest)
            except Exception as e:
                diffs.append({'label': 'copy into %s host' % kind, 'hist': None, 'op': ['BUILD'],
                              'base': 'copy succeeds', 'variant': '%s: %s' % (type(e).__name__, e)})
                continue
            variants.append(('copy into %s host' % kind, R, ren, drop))
            after = structure(guest)
            if after != before:
                what = [n for n in before[0] if after[0].get(n) != before[0][n]] or \
                       [a for a, b in zip(after[1], before[1]) if a != b][:2] or 'number of transitions'
                diffs.append({'label': 'copy into %s host' % kind, 'hist': None, 'op': ['STRUCTURE'],
                              'base': 'the guest statechart is not modified by being copied',
                              'variant': 'changed: %s' % (what,)})
                before = after
        variants.append(('the guest itself after having been copied twice',
                         engine.Runner(spec, prebuilt=(guest, gobjs)), {}, ()))
    extra = {'variants': len(variants), 'comparisons': 0}

    def on_exec(R, ex):
        hist, op = ex.hist or (), ex.op
        ref = run_on(R0, hist, op, {})
        for label, RV, ren, drop in variants:
            got = run_on(RV, hist, op, ren, drop)
            extra['comparisons'] += 1
            if got != ref and len(diffs) < 10:
                diffs.append({'label': label, 'hist': hist, 'op': op, 'base': ref, 'variant': got})
    res = engine.explore(spec, k, [], runner=R0, on_exec=on_exec)
    res['violations'] = [v for v in res['violations'] if v['category'] == 'crash']
    res['diffs'] = diffs
    res['nviol'] = len(diffs) + len(res['violations'])
    res['desc'] = describe(spec)
    res['task'] = task
    res['extra'] = extra
    return res


def run(tier, seed):
    t0 = _time.time()
    tasks = []
    for nmin, nmax, k in PLAN[tier]:
        for tree in skeletons(nmin, nmax):
            for ivar in ((0, 1) if has_variant(tree) else (0,)):
                tasks.append((tree, 'asc', ivar, k, 'rename'))
        if nmax <= 6:
            for tree in skeletons(max(nmin, 4), min(nmax, 5 if tier == 'quick' else 6), require='multihist', max_hist=2):
                tasks.append((tree, 'asc', 0, 1, 'rename'))
        for tree in skeletons(nmin, nmax, final=False):
            for ivar in ((0, 1) if has_variant(tree) else (0,)):
                tasks.append((tree, 'asc', ivar, k, 'copy'))
    # short names made of each other's characters: a renaming to longer names must change nothing either
    for tree in skeletons(3, 4, history=False, final=False):
        if "'O'" in repr(tree):
            tasks.append((tree, 'overlap', 0, 2, 'rename'))
            tasks.append((tree, 'overlap', 0, 2, 'copy'))
    tasks.sort(key=lambda t: -len(repr(t[0])) * (3 if t[4] == 'rename' else 1))
    results = harness.pmap(work, tasks, chunksize=2)
    agg = harness.Agg()
    viols = []
    for r in sorted(results, key=lambda r: len(r['desc'])):
        agg.add(r, program=r['desc'])
        for v in r['diffs']:
            viols.append(harness.Violation(
                'C17:%s:%s' % (v['label'].split(' ')[0], v['op'][0] if v['op'] else ''),
                'C17 %s: %s differs after %s op %s:\n      original: %s\n      variant : %s'
                % (r['desc'], v['label'], v['hist'], v['op'], v['base'], v['variant']),
                {'check': 'C17', 'task': schemes._jsonable(r['task']), 'label': v['label'],
                 'hist': schemes._jsonable(v['hist']), 'op': schemes._jsonable(v['op']),
                 'base': repr(v['base']), 'variant': repr(v['variant'])}))
        for v in r['violations']:
            viols.append(harness.Violation('C17:crash', 'C17 %s: %s' % (r['desc'], v['detail']),
                                           {'check': 'C17', 'task': schemes._jsonable(r['task']), **v}))
    comparisons = sum(r['extra']['comparisons'] for r in results)
    cov = {
        'programs': agg.programs, 'states': agg.states, 'transitions': agg.transitions,
        'traces_validated_against_impl': comparisons, 'exhaustive': agg.exhaustive,
        'renamed_or_hosted_charts_built': sum(r['extra']['variants'] for r in results),
        'bounds': [{'states_min': a, 'states_max': b, 'k': k} for a, b, k in PLAN[tier]],
        'outcomes': dict(agg.outcomes),
        'samples': [{'chart': r['desc'], 'mode': r['task'][4], 'variants': r['extra']['variants'],
                     'executions': r['transitions']} for r in harness.pick_samples(results, seed, 3)],
        'rule': 'base chart BFS (all skeletons incl. history, scheme S: internal and external transitions, <= k '
                'true guards); every (state, op) replayed on every renamed chart (each single state, each pair, '
                'all states; order-preserving fresh names) and on the chart plugged into 2 hosts by '
                'copy_from_statechart; signatures compared up to the renaming',
    }
    return harness.finish('C17', tier, seed, 'model_checking', cov, viols, [
        'guests for copy_from_statechart have no final state (a final child of the statechart root '
        'legitimately behaves differently once the guest is no longer the root)',
        'code fragments are opaque strings and are not renamed'], t0)


def replay(data):
    task = schemes._tupled(data['task'])
    spec = base_spec(task)
    print('chart   :', describe(spec))
    print('variant :', data['label'])
    print('history :', data['hist'], 'op', data['op'])
    print('original:', data['base'])
    print('variant :', data['variant'])
    return 0
