"""C11 — YAML export/import round-trip is lossless.

(a) structure: every skeleton chart with every field kind populated (entry/exit code, 2+2+2
    contracts on states and transitions, priorities {-3,-1,0,1,5}, internal transitions,
    initial/memory, description, preamble), built through the API and from YAML: field-by-field
    equality, `==` between every original and re-imported state/transition, and lock-step execution
    of original and re-import over the complete BFS of the original.
(b) strings: an alphabet of YAML-significant / unicode / multi-line strings substituted at every
    field position of a fixed chart (every (position, string) pair; every pair of strings for two
    state names)."""
import collections
import time as _time

from mc import harness, engine, schemes, probes
from mc.chartgen import (skeletons, flatten, add_scheme_S, has_variant, describe, build_api, build_yaml, build_api_rebuilt, build_api_moved,
                         to_yaml)

from sismic.io import export_to_yaml, import_from_yaml
from sismic.model import (BasicState, CompoundState, OrthogonalState, FinalState, ShallowHistoryState,
                          DeepHistoryState)

PLAN = {
    'quick': [(2, 4, 1)],
    'thorough': [(2, 5, 1), (6, 6, 1)],
}
PRIOS = [-3, -1, 0, 1, 1000]      # "any integer": also one that is not a cached small int
KINDCLS = {'B': BasicState, 'C': CompoundState, 'O': OrthogonalState, 'F': FinalState,
           'HS': ShallowHistoryState, 'HD': DeepHistoryState}

SIGMA = [
    'plain', '1', '1.5', '-0', '0x1F', '1e3', '1_000', 'yes', 'no', 'on', 'true', 'null', '~', 'NaN', '.inf',
    '2001-01-01', '12:30:45', ' lead', 'trail ', '  both  ', 'a: b', 'a:b', 'a #c', '#c', '- x', '-', '[x]',
    '{a: b}', '"q"', "'q'", 'a"b', "a'b", 'a\\nb', 'a\nb', 'a\n', '\na', 'a\n\nb', 'a\n  b\n', 'a\tb', '\tx',
    'a\r\nb', ' x', 'a b', '﻿bom', 'café', '中文', '\U0001F600', '!tag', '!!str x',
    '&a', '*a', '|', '>', '|-', '<<', '%TAG', '@at', '`bt`', ',', '?', '? x', ': ', '---', '...', 'x' * 200,
    'a\x07b', 'key: |\n  block', 'a b', 'end:',
]
SIGMA_F12 = ['a\x85b', '\x85', 'x\x85']      # NEL: was finding F12, fixed


# ------------------------------------------------------------------------------------ (a)
def make_spec(task):
    tree, scheme, ivar, k = task
    spec = add_scheme_S(flatten(tree, scheme, ivar), send_subset=True)
    spec['name'] = 'round trip: chart #1'
    spec['description'] = 'a description\nwith two lines'
    spec['preamble'] = 'v = 0\nw = 1'
    for s in spec['states']:
        for kind in ('pre', 'post', 'inv'):
            s[kind] = ["C('s/%s:%s%d', v)" % (s['name'], kind, i) for i in range(2)]
    for t in spec['transitions']:
        t['priority'] = PRIOS[t["tid"] % 5] if t["tid"] % 7 else -400
        for kind in ('pre', 'post', 'inv'):
            t[kind] = ["C('t/%d:%s%d', v)" % (t['tid'], kind, i) for i in range(2)]
    if spec['transitions']:
        # an exact twin: a second transition that is equal to the first one in every field (a statechart may
        # hold it; it must survive the round trip as a second transition)
        twin = dict(spec['transitions'][0], tid=len(spec['transitions']))
        twin.update({k: list(twin[k]) for k in ('pre', 'post', 'inv')})
        spec['transitions'].append(twin)
    return spec


BUILDERS = {'api': build_api, 'yaml': build_yaml, 'rebuilt': build_api_rebuilt, 'moved': build_api_moved}


def kind_of(o):
    for k, c in KINDCLS.items():
        if type(o) is c:
            return k
    return '?'


def strip(x):
    return x.strip() if isinstance(x, str) else x


def compare_charts(a, b, eq_clause=True):
    """field-by-field comparison of two Statechart objects -> list of differences"""
    out = []
    for f in ('name', 'description', 'preamble'):
        if getattr(a, f) != getattr(b, f):
            out.append('%s: %r -> %r' % (f, getattr(a, f), getattr(b, f)))
    if a.states != b.states:
        out.append('state names: %r -> %r' % (a.states, b.states))
        return out
    if a.root != b.root:
        out.append('root: %r -> %r' % (a.root, b.root))
    for n in a.states:
        x, y = a.state_for(n), b.state_for(n)
        if kind_of(x) != kind_of(y):
            out.append('kind of %r: %s -> %s' % (n, kind_of(x), kind_of(y)))
            continue
        if a.parent_for(n) != b.parent_for(n):
            out.append('parent of %r: %r -> %r' % (n, a.parent_for(n), b.parent_for(n)))
        if sorted(a.children_for(n)) != sorted(b.children_for(n)):
            out.append('children of %r: %r -> %r' % (n, a.children_for(n), b.children_for(n)))
        for f in ('on_entry', 'on_exit'):
            if strip(getattr(x, f, None)) != strip(getattr(y, f, None)):
                out.append('%s of %r: %r -> %r' % (f, n, getattr(x, f, None), getattr(y, f, None)))
        for f in ('initial', 'memory'):
            if getattr(x, f, None) != getattr(y, f, None):
                out.append('%s of %r: %r -> %r' % (f, n, getattr(x, f, None), getattr(y, f, None)))
        for f in ('preconditions', 'postconditions', 'invariants'):
            if [strip(c) for c in getattr(x, f)] != [strip(c) for c in getattr(y, f)]:
                out.append('%s of %r: %r -> %r' % (f, n, getattr(x, f), getattr(y, f)))
        if eq_clause and not (x == y):
            out.append('== is False between original and re-imported state %r' % n)

    def tkey(t):
        return (t.source, t.target, strip(t.event), strip(t.guard), strip(t.action), t.priority,
                tuple(map(strip, t.preconditions)), tuple(map(strip, t.postconditions)),
                tuple(map(strip, t.invariants)))
    ta = collections.Counter(map(tkey, a.transitions))
    tb = collections.Counter(map(tkey, b.transitions))
    if ta != tb:
        out.append('transitions lost: %r, appeared: %r' % (list((ta - tb).keys())[:2], list((tb - ta).keys())[:2]))
    elif eq_clause:
        pool = list(b.transitions)
        for t in a.transitions:
            m = [u for u in pool if tkey(u) == tkey(t)]
            if not any(t == u for u in m):
                out.append('== is False between original and re-imported transition %s' % (t,))
            if m:
                pool.remove(m[0])
    return out


def sig_step(R, outcome, step, it, leftovers):
    def ms_sig(ms):
        return (R.tid(ms.transition) if ms.transition is not None else None, tuple(ms.exited_states),
                tuple(ms.entered_states), tuple(e.name for e in ms.sent_events))
    body = None if step is None else (step.event.name if step.event else None,
                                      tuple(ms_sig(ms) for ms in step.steps))
    return (outcome, body, tuple(it.configuration), repr(it.context.get('v')),
            tuple((d.event.name if d.event else None) for d in leftovers),
            [e for e in probes.LOG])


def run_on(R, hist, op):
    probes.reset()
    probes.CVAL['fail_at'] = None
    try:
        if op[0] == 'INIT':
            it = R.new_interpreter()
            step = it.execute_once()
            left = []
            while True:
                d = it.execute_once()
                if d is None:
                    break
                left.append(d)
            return sig_step(R, 'step', step, it, left)
        it = R.fresh(hist)
        probes.reset()
        outcome, step, exc = R.apply(it, op)
        if exc is not None:
            return (outcome, tuple(it.configuration))
        return sig_step(R, outcome, step, it, R.leftovers)
    except Exception as e:
        return ('crash:' + type(e).__name__, str(e)[:80])


def _e_rotate(sc):
    for i, t in enumerate(list(sc.transitions)):
        parent = sc.parent_for(t.source)
        if i % 2 == 0 and parent is not None:
            sc.rotate_transition(t, new_source=parent)          # the transition now leaves the parent


def _e_remove(sc):
    for i, t in enumerate(list(sc.transitions)):
        if i % 3 == 1:
            sc.remove_transition(t)


def _e_rename(sc):
    leaves = [n for n in sc.states if not sc.children_for(n) and sc.parent_for(n) is not None]
    if leaves:
        sc.rename_state(leaves[0], leaves[0] + '_renamed')


def _e_add(sc):
    from sismic.model import Transition
    for n in sc.states:
        if kind_of(sc.state_for(n)) in ('B', 'C', 'O') and sc.parent_for(n) is not None:
            sc.add_transition(Transition(n, sc.root, event='added', priority=2))
            break


# edits through the public API after the statechart has been exported (and queried) once: what is exported next
# must be the statechart as it is now; the chart is round-tripped after every phase
EDITS = [_e_rotate, _e_remove, _e_rename, _e_add]


def work(task):
    spec = make_spec(task[:4])
    builder = task[4]
    diffs = []
    extra = collections.Counter()
    try:
        sc1, objs1 = BUILDERS[builder if builder != 'edited' else 'api'](spec)
        text = export_to_yaml(sc1)
        if builder == 'edited':
            for phase in EDITS[:-1]:
                phase(sc1)
                for d in compare_charts(sc1, import_from_yaml(export_to_yaml(sc1))):
                    diffs.append({'kind': 'field' if '==' not in d else 'eq', 'hist': None, 'op': None,
                                  'detail': 'after %s: %s' % (phase.__name__[3:], d)})
            EDITS[-1](sc1)
            text = export_to_yaml(sc1)
        sc2 = import_from_yaml(text)
    except Exception as e:
        return {'states': 0, 'transitions': 1, 'outcomes': {}, 'violations': [], 'nviol': 1,
                'found': [{'kind': 'roundtrip-fails', 'hist': None, 'op': None,
                           'detail': '%s: %s' % (type(e).__name__, str(e)[:200])}],
                'desc': describe(spec), 'task': task, 'extra': {}}
    for d in compare_charts(sc1, sc2):
        diffs.append({'kind': 'field' if '==' not in d else 'eq', 'hist': None, 'op': None, 'detail': d})
    if builder == 'edited':
        # the statechart no longer is the one the spec describes: structural comparison only
        return {'states': 0, 'transitions': 1, 'outcomes': {'edited chart round-tripped': 1}, 'violations': [],
                'nviol': len(diffs), 'found': diffs, 'desc': describe(spec) + ' [edited]', 'task': task,
                'extra': {'comparisons': 1}}
    R1 = engine.Runner(spec, prebuilt=(sc1, objs1))
    R2 = engine.Runner(spec, prebuilt=(sc2, None))

    def on_exec(R, ex):
        hist = ex.hist or ()
        a = run_on(R1, hist, ex.op)
        b = run_on(R2, hist, ex.op)
        extra['comparisons'] += 1
        if a != b and len(diffs) < 8:
            diffs.append({'kind': 'behaviour', 'hist': hist, 'op': ex.op,
                          'detail': 'original %r, re-imported %r' % (a[:4], b[:4])})
    res = engine.explore(spec, task[3], [], runner=R1, on_exec=on_exec)
    res['violations'] = [v for v in res['violations'] if v['category'] == 'crash']
    res['found'] = diffs
    res['nviol'] = len(diffs) + len(res['violations'])
    res['desc'] = describe(spec)
    res['task'] = task
    res['extra'] = dict(extra)
    return res


# ------------------------------------------------------------------------------------ (b)
def base_b():
    """fixed chart for string substitution; field positions are (kind, index, field)"""
    return {
        'name': 'chart', 'description': 'desc', 'preamble': 'x = 1',
        'states': [
            {'name': 'root', 'kind': 'C', 'parent': None, 'initial': 'a', 'on_entry': 'e0', 'on_exit': 'x0',
             'pre': ['p0'], 'post': ['q0'], 'inv': ['i0']},
            {'name': 'a', 'kind': 'B', 'parent': 'root', 'on_entry': 'e1', 'on_exit': 'x1',
             'pre': ['p1', 'p1b'], 'post': ['q1'], 'inv': ['i1']},
            {'name': 'b', 'kind': 'C', 'parent': 'root', 'initial': 'c', 'on_entry': 'e2'},
            {'name': 'c', 'kind': 'B', 'parent': 'b'},
            {'name': 'h', 'kind': 'HS', 'parent': 'b', 'memory': 'c', 'on_entry': 'e3'},
            {'name': 'o', 'kind': 'O', 'parent': 'root', 'on_exit': 'x4'},
            {'name': 'r1', 'kind': 'B', 'parent': 'o'},
            {'name': 'f', 'kind': 'F', 'parent': 'root', 'on_entry': 'e5'},
        ],
        'transitions': [
            {'source': 'a', 'target': 'b', 'event': 'ev', 'guard': 'g0', 'action': 'act0', 'priority': 1,
             'pre': ['tp0'], 'post': ['tq0'], 'inv': ['ti0']},
            {'source': 'a', 'target': None, 'event': 'ev2', 'guard': 'g1', 'action': 'act1', 'priority': 0},
            {'source': 'c', 'target': 'h', 'event': None, 'guard': 'g2', 'action': None, 'priority': -1},
            {'source': 'r1', 'target': 'f', 'event': 'ev', 'guard': None, 'action': 'act3', 'priority': 5},
        ],
    }


def positions():
    pos = [('chart', 'name'), ('chart', 'description'), ('chart', 'preamble')]
    b = base_b()
    for i, s in enumerate(b['states']):
        pos.append(('statename', i))
        for f in ('on_entry', 'on_exit'):
            if s.get(f):
                pos.append(('state', i, f))
        for f in ('pre', 'post', 'inv'):
            for j in range(len(s.get(f, []))):
                pos.append(('statecond', i, f, j))
    for i, t in enumerate(b['transitions']):
        for f in ('event', 'guard', 'action'):
            if t.get(f):
                pos.append(('trans', i, f))
        for f in ('pre', 'post', 'inv'):
            for j in range(len(t.get(f, []))):
                pos.append(('transcond', i, f, j))
    return pos


def rename(spec, old, new):
    for s in spec['states']:
        for f in ('name', 'parent', 'initial', 'memory'):
            if s.get(f) == old:
                s[f] = new
    for t in spec['transitions']:
        for f in ('source', 'target'):
            if t.get(f) == old:
                t[f] = new


def substitute(pos, s, pos2=None, s2=None):
    spec = base_b()
    for p, v in ((pos, s), (pos2, s2)):
        if p is None:
            continue
        if p[0] == 'chart':
            spec[p[1]] = v
        elif p[0] == 'statename':
            rename(spec, base_b()['states'][p[1]]['name'], v)
        elif p[0] == 'state':
            spec['states'][p[1]][p[2]] = v
        elif p[0] == 'statecond':
            spec['states'][p[1]][p[2]][p[3]] = v
        elif p[0] == 'trans':
            spec['transitions'][p[1]][p[2]] = v
        elif p[0] == 'transcond':
            spec['transitions'][p[1]][p[2]][p[3]] = v
    return spec


def check_b(case):
    pos, s, pos2, s2 = case
    spec = substitute(pos, s, pos2, s2)
    names = [x['name'] for x in spec['states']]
    if len(set(names)) != len(names):
        return None          # two states with the same name: not a valid statechart
    exact_event = pos[0] == 'trans' and pos[2] == 'event'
    if exact_event and s != s.strip():
        return None          # event names are stripped by the importer (DESIGN.md §6)
    try:
        sc1, _ = build_api(spec)
    except Exception as e:
        return {'detail': 'API refuses the statechart: %s' % e, 'kind': 'build'}
    try:
        text = export_to_yaml(sc1)
        sc2 = import_from_yaml(text)
    except Exception as e:
        return {'kind': 'roundtrip-fails', 'detail': '%s: %s' % (type(e).__name__, str(e)[:150])}
    no_ws = all(v is None or v == v.strip() for v in (s, s2))
    d = compare_charts(sc1, sc2, eq_clause=no_ws)
    if d:
        return {'kind': 'field' if '==' not in d[0] else 'eq', 'detail': d[0]}
    return {}


# documents imported before the second pass over the string cases: a round trip must not depend on what the
# process imported earlier (parsers, resolvers and caches may not be shared between calls)
EARLIER = ['%YAML 1.2\n---\nstatechart:\n  name: earlier\n  root state:\n    name: r\n    transitions:\n'
           '      - event: e\n        priority: high\n',
           '%YAML 1.1\n---\nstatechart:\n  name: earlier\n  root state:\n    name: on\n']


def import_earlier():
    for text in EARLIER:
        import_from_yaml(text)


def work_b(cases):
    out = []
    n = 0
    for mode in ('as is', 'after importing other documents'):
        if mode != 'as is':
            import_earlier()
        for c in cases:
            r = check_b(c)
            if r is None:
                continue
            n += 1
            if r:
                out.append({'pos': c[0], 'string': c[1], 'pos2': c[2], 'string2': c[3], 'mode': mode, **r})
    return n, out


def run(tier, seed):
    t0 = _time.time()
    tasks = []
    for nmin, nmax, k in PLAN[tier]:
        for tree in skeletons(nmin, nmax):
            for ivar in ((0, 1) if has_variant(tree) else (0,)):
                for builder in ('api', 'yaml', 'edited'):
                    tasks.append((tree, 'asc', ivar, k, builder))
                if ivar == 0:
                    for builder in ('rebuilt', 'moved'):
                        tasks.append((tree, 'asc', ivar, k, builder))
    tasks.sort(key=lambda t: -len(repr(t[0])))
    results = harness.pmap(work, tasks, chunksize=2)
    agg = harness.Agg()
    viols = []
    for r in sorted(results, key=lambda r: len(r['desc'])):
        agg.add(r, program=r['desc'])
        for v in r['found']:
            import re
            viols.append(harness.Violation(
                'C11:%s:%s' % (v['kind'], re.sub(r"'[^']*'|[0-9]+", '_', v['detail'])[:40]),
                'C11 %s in %s (%s-built)%s: %s' % (v['kind'], r['desc'], r['task'][4],
                                                  '' if v['hist'] is None else ' after %s op %s' % (v['hist'], v['op']),
                                                  v['detail']),
                {'check': 'C11', 'part': 'a', 'task': schemes._jsonable(r['task']),
                 'hist': schemes._jsonable(v['hist']), 'op': schemes._jsonable(v['op']), 'detail': v['detail']}))
        for v in r['violations']:
            viols.append(harness.Violation('C11:crash', 'C11 %s: %s' % (r['desc'], v['detail']),
                                           {'check': 'C11', 'part': 'a', 'task': schemes._jsonable(r['task']), **v}))
    # (b)
    pos = positions()
    cases = [(p, s, None, None) for p in pos for s in SIGMA + SIGMA_F12]
    namepos = [p for p in pos if p[0] == 'statename']
    pair_names = SIGMA if tier == 'thorough' else SIGMA[::2]
    cases += [(namepos[1], s, namepos[3], s2) for s in pair_names for s2 in pair_names]
    cases += [(namepos[2], s, namepos[4], s2) for s in pair_names for s2 in pair_names]     # parent + history
    nchunk = 64
    bres = harness.pmap(work_b, [cases[i::nchunk] for i in range(nchunk)])
    nb = sum(n for n, _ in bres)
    bad_strings = collections.Counter()
    for _, lst in bres:
        for v in lst:
            strs = [x for x in (v['string'], v['string2']) if x is not None]
            nel = any('\x85' in x for x in strs)
            sig = 'C11:string:%s:%s' % (v['kind'], 'NEL' if nel else '+'.join(repr(x)[:12] for x in strs))
            bad_strings[sig] += 1
            viols.append(harness.Violation(
                sig, 'C11 string %r%s at %s%s: %s' % (v['string'], '' if v['string2'] is None else ' and %r' % v['string2'],
                                                     v['pos'], '' if v['pos2'] is None else ' / %s' % (v['pos2'],), v['detail']),
                {'check': 'C11', 'part': 'b', 'pos': v['pos'], 'string': v['string'], 'pos2': v['pos2'],
                 'string2': v['string2'], 'mode': v['mode'], 'detail': v['detail'] + ' [%s]' % v['mode']}))
    comparisons = sum(r['extra'].get('comparisons', 0) for r in results)
    cov = {
        'programs': agg.programs, 'states': agg.states, 'transitions': agg.transitions,
        'traces_validated_against_impl': comparisons, 'exhaustive': agg.exhaustive,
        'evaluations': nb + agg.programs, 'distinct_nontrivial': nb,
        'string_alphabet_size': len(SIGMA) + len(SIGMA_F12), 'field_positions': len(pos),
        'string_cases': nb,
        'bounds': [{'states_min': a, 'states_max': b} for a, b, k in PLAN[tier]],
        'samples': [{'structure chart': r['desc'], 'builder': r['task'][4]} for r in harness.pick_samples(results, seed, 2)]
        + [{'position': list(map(str, c[0])), 'string': c[1]} for c in harness.pick_samples(cases, seed, 3)],
        'rule': '(a) all skeletons x {API, YAML}-built with all field kinds populated: round trip, field equality, ==, '
                'lock-step BFS; (b) every (field position, string) pair over the alphabet + every pair of strings for '
                'two state names (sibling/child and parent/history), each once as is and once after the process has '
                'imported a %YAML 1.2 and then a %YAML 1.1 document; a case is non-trivial when the chart is valid '
                '(distinct names) and was round-tripped and compared',
    }
    return harness.finish('C11', tier, seed, 'model_checking', cov, viols, [
        'code and event strings are compared modulo surrounding whitespace (the importer strips them); names, targets, '
        'initial, memory, description, preamble exactly',
        'empty strings are not in the alphabet (the exporter omits empty fields)'], t0)


def replay(data):
    if data.get('part') == 'b':
        if data.get('mode', 'as is') != 'as is':
            import_earlier()
            print('(after importing %d other documents)' % len(EARLIER))
        spec = substitute(tuple(data['pos']), data['string'],
                          tuple(data['pos2']) if data.get('pos2') else None, data.get('string2'))
        sc1, _ = build_api(spec)
        text = export_to_yaml(sc1)
        print(text)
        sc2 = import_from_yaml(text)
        print('differences:', compare_charts(sc1, sc2))
    else:
        task = schemes._tupled(data['task'])
        spec = make_spec(task[:4])
        sc1, _ = BUILDERS[task[4] if task[4] != 'edited' else 'api'](spec)
        if task[4] == 'edited':
            export_to_yaml(sc1)
            for phase in EDITS:
                phase(sc1)
                print('after', phase.__name__[3:], ':', compare_charts(sc1, import_from_yaml(export_to_yaml(sc1)))[:3])
        sc2 = import_from_yaml(export_to_yaml(sc1))
        print('chart:', describe(spec))
        print('differences:', compare_charts(sc1, sc2)[:5])
    print('recorded:', data['detail'])
    return 0
