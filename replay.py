#!/venv/bin/python
"""replay.py <file>  — re-execute a stored violation without the explorer."""
import importlib
import json
import os
import sys

sys.path.insert(0, os.path.dirname(os.path.abspath(__file__)))
import mc  # noqa: E402


def main():
    with open(sys.argv[1]) as f:
        data = json.load(f)
    print('property :', data['property'])
    print('message  :', data['message'])
    rep = data['replay']
    if 'traceback' in rep:
        # the check was aborted by an exception (code under test that could not even be driven): the record is the
        # traceback; running the check again is the replay
        print(rep['traceback'])
        print('replay   : /venv/bin/python verify.py %s --tier quick' % data['property'])
        return 0
    mod = importlib.import_module('checks.%s' % data['property'].lower())
    try:
        return mod.replay(rep)
    except Exception as e:      # a replay helper must never hide the record itself
        print('replay helper failed (%s: %s); the stored record is:' % (type(e).__name__, e))
        print(json.dumps(rep, indent=1)[:4000])
        return 0


if __name__ == '__main__':
    sys.exit(main())
