#!/venv/bin/python
"""replay.py <file>  — re-execute a stored violation without the explorer."""
import importlib
import json
import os
import sys

sys.path.insert(0, os.path.dirname(os.path.abspath(__file__)))
import mc  # noqa: E402


def main():
    with open(sys.argv[1]) as f:
        data = json.load(f)
    print('property :', data['property'])
    print('message  :', data['message'])
    mod = importlib.import_module('checks.%s' % data['property'].lower())
    return mod.replay(data['replay'])


if __name__ == '__main__':
    sys.exit(main())
