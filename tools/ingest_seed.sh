#!/bin/bash
# usage: ingest_seed.sh <worktree> <seed id>   — copy an agent's _seed/ into seeded/<id>/ and remove the worktree
set -e
wt=$1; id=$2; here=$(dirname $(dirname $(readlink -f $0)))
mkdir -p $here/seeded/$id
cp $wt/_seed/patch.diff $wt/_seed/demo.py $wt/_seed/meta.json $here/seeded/$id/
git -C /repo worktree remove --force $wt
echo ingested $id
