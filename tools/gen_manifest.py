#!/venv/bin/python
"""Regenerate /verif/MANIFEST.json from the table below (single source of truth)."""
import json
import os

HERE = os.path.dirname(os.path.dirname(os.path.abspath(__file__)))
PY = '/venv/bin/python'

MC = 'model_checking'
CHECKS = {
    # id: (level, technique, text, note, design_ref)
    'C02': (MC, 'explicit-state BFS over the real Interpreter on all saturated skeleton charts; invariant on every state',
            'Complete breadth-first exploration of (configuration, history memory) for every statechart skeleton up to 6-7 states, '
            'every set of <=k simultaneously true guards in every state; legality/stability/final invariant after every returning call. '
            'Bounded exhaustive: the right level because the property is an invariant over a finite state space per chart.',
            'Trusts the reference legality/default-completion definition (mc/refmodel.py, DESIGN.md §2) and the saturation argument (false guard == absent transition). Charts above the size bound are not covered.',
            '§4 C02'),
}
ALL = ['C%02d' % i for i in range(1, 21)]
NOT_YET = 'check not built yet in this round (planned, see DESIGN.md §4/§8)'


def main():
    checks = []
    for pid in ALL:
        if pid not in CHECKS:
            continue
        level, tech, text, note, ref = CHECKS[pid]
        checks.append({
            'property_id': pid,
            'quick_cmd': '%s verify.py %s --tier quick' % (PY, pid),
            'thorough_cmd': '%s verify.py %s --tier thorough' % (PY, pid),
            'evidence_file': 'evidence/%s.json' % pid,
            'replay_cmd_template': '%s replay.py {path}' % PY,
            'engine': 'mc',
            'level_claimed': {'category': level, 'text': text, 'design_ref': 'DESIGN.md ' + ref},
            'level_note': note,
            'technique': tech,
        })
    m = {
        'version': 1,
        'setup_cmd': '%s verify.py --selftest' % PY,
        'hooks': {
            'guard': 'SISMIC_VERIF',
            'enable': 'no source hooks are needed: probes enter through initial_context, the runner and the clock are controlled through their module namespaces and sys.settrace; checks import sismic from /repo (or $SISMIC_SRC)',
            'baseline_off_cmd': 'cd /repo && /venv/bin/python -m pytest -ra -q -p no:cacheprovider --timeout=900 --continue-on-collection-errors',
            'source_commits': [],
            'add_only': True,
        },
        'engines': [{
            'name': 'mc', 'path': 'mc/',
            'serves_properties': sorted(CHECKS),
            'kind_free_text': 'hand-written explicit-state / stateless explorers driving the real sismic code, with an independent reference model as oracle',
        }],
        'checks': checks,
        'not_applicable': [{'property_id': p, 'reason': NOT_YET} for p in ALL if p not in CHECKS],
        'notes': 'All checks run with /venv/bin/python from /verif; known findings in known_findings.json; violations are written to replays/.',
    }
    with open(os.path.join(HERE, 'MANIFEST.json'), 'w') as f:
        json.dump(m, f, indent=1)
    print('MANIFEST.json: %d checks, %d not_applicable' % (len(checks), len(m['not_applicable'])))


if __name__ == '__main__':
    main()
