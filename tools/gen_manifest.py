#!/venv/bin/python
"""Regenerate /verif/MANIFEST.json from the table below (single source of truth)."""
import json
import os

HERE = os.path.dirname(os.path.dirname(os.path.abspath(__file__)))
PY = '/venv/bin/python'

MC = 'model_checking'
CHECKS = {
    'C20': (MC, 'stateless exhaustive schedule enumeration (CHESS-style, preemption-bounded) of the real AsyncRunner on real threads under a controlled scheduler (shimmed threading/time + sys.settrace statement-level preemption)',
            'Fifteen drivers (start/queue/await/stop, delayed events and self-termination, pause/unpause, stop while paused, execute_all, two clients, stop during an execute_all cycle, pause racing stop, events queued while paused then stop, a delayed event becoming due while the client queues, a refused second start on a paused runner, one Event object queued three times, a pending far-from-due internal event, stop before start, start racing stop); for each, every schedule of the runner thread against the client thread(s) with at most 1-3 (quick) / 2-4 (thorough) preemptions is executed on the real code and judged: no deadlock/livelock, executed steps == steps handed to after_execute, events consumed exactly once and FIFO, hooks once, pause/stop semantics.',
            'GIL modelled at statement granularity in six functions and at Event/Thread/sleep operations; interval=0, virtual time; preemption-bounded, not all schedules.  Both defects it found in the unchanged tree (F11 queue insert race, F13 pause vs stop deadlock) are repaired; the queue lock introduced by the repair is shimmed too.',
            '§4 C20'),
    'C19': (MC, 'exhaustive enumeration of bounded scenarios (all action blocks x all predefined then-steps x argument domains) run through execute_bdd, against an oracle driving a plain Interpreter',
            'Every scenario made of a when-block of <=2 (thorough: 3) predefined steps (optionally after a given step, followed by a given step, or as second block after a then) and one then-step of every predefined pattern and argument (true and false assertions in similar numbers) is executed by execute_bdd on two charts; each step status from behave\'s JSON report must equal the truth of the asserted fact computed from the macro steps / state of a plain Interpreter fed the same actions; sismic.testing predicates are compared with the macro steps; the exit code must reflect the verdicts.',
            'Two small charts and the listed action/argument alphabets; behave stops a scenario at the first failure so each when-block carries one verdict.',
            '§4 C19'),
    'C15': (MC, 'explicit-state BFS over systems of bound interpreters and callables (bind/detach at any point, also in the middle of a step), lock-step with reference mailboxes',
            'BFS (depth 5-6) over queue/execute_once/clock/bind/detach on systems of 2 and 3 interpreters with recording callables and a callable that detaches a listener while it is being notified; cycles and self-binding arise by reachability. Each step must consume the predicted event (identity by serial) and report the predicted sent events; the global delivery log of the callables must equal the reference exactly; every state is drained with exactly-once accounting.',
            'Trusts the reference mailbox model (80 lines); depth-bounded; <= 2-3 listeners per interpreter.',
            '§4 C15'),
    'C11': (MC, 'exhaustive bounded input enumeration (all skeleton charts x all field kinds; every (field position, string) pair over a YAML-hostile alphabet) plus lock-step BFS of original vs re-imported chart',
            'Every skeleton chart (<=4-6 states) with every field kind populated, API- and YAML-built, is round-tripped: field-by-field equality, == between originals and re-imports, and lock-step execution over the complete BFS of the original. Every string of a 70-string alphabet (YAML type look-alikes, indicators, quotes, multi-line, unicode line separators, BOM, emoji, control characters) is substituted at every field position, and every pair of strings for two state names.',
            'Strings outside the alphabet are not covered; code/event strings are compared modulo surrounding whitespace; U+0085 (first a known finding, F12) is repaired and stays in the alphabet.',
            '§4 C11'),
    'C12': ('fault_enumeration', 'exhaustive fault enumeration: every listed fault operator at every applicable position of every valid base document, singly, in all non-overlapping pairs and (small charts) triples',
            'Valid base documents are all skeleton charts (<=5-6 states) rendered to YAML; the imported statechart is checked against the structural rules through public queries; each faulty document (duplicate names, misplaced transitions/history states, dangling initial/memory/target, unknown keys/types/priorities, both states and parallel states, missing name/root/statechart) must raise exactly StatechartError.',
            'Only the listed fault operators; merely odd documents are outside the alphabet; two renamings are not combined (they can cancel out).',
            '§4 C12'),
    'C08': (MC, 'explicit-state BFS over the real Interpreter with contract probes on every state/transition, plus exhaustive single-fault injection (every condition evaluation made to fail in turn)',
            'Every skeleton chart (<=4-5 states) carries 2 pre/2 post/2 invariant probes on every state and transition; for every (state, op) of the complete BFS (incl. empty steps and None calls) the clean log must be the documented evaluation sequence with the documented __old__ values, and for every evaluation j a run with that evaluation false must raise the right error class with the right owner and condition and run nothing afterwards.',
            'Both placements of transition pre-conditions/invariants relative to the exit code are accepted; relies on C03 for the truth of the MacroStep.',
            '§4 C08'),
    'C09': (MC, 'lock-step differential exploration: complete BFS with contracts on, every (state, op) replayed under ignore_contract=True; shipped contract charts explored by BFS in lock-step',
            'Generated charts with contract probes and sends everywhere: macro steps per micro step, configurations, contexts, sent events and meta-event streams must be identical with and without contract checking; under ignore_contract no condition is evaluated and no ContractError raised even when every condition is false. The shipped elevator_contract and microwave_with_contracts charts are explored to depth 6-8 over their own alphabet in lock-step.',
            'Differential oracle; condition code is side-effect free (DESIGN.md §2).',
            '§4 C09'),
    'C10': (MC, 'explicit-state BFS over monitored charts with recording listeners and, for every meta-event index i, a property statechart final at i (exhaustive fault-point enumeration)',
            'For every (state, op) of the complete BFS of every skeleton chart (<=4-5 states; send, delayed send, notify and clock moves in fragments): the unified log of fragments and meta-events equals the sequence derived from the MacroStep, a bound recording property statechart sees the same stream with its clock at the step time, the monitored run equals the unmonitored one, and a property statechart that turns final at the i-th meta-event (every i) makes that very call raise PropertyStatechartError with nothing run afterwards.',
            "The deprecated 'delayed event sent' meta-event is ignored; relies on C03 for the truth of the MacroStep.",
            '§4 C10'),
    'C07': (MC, 'differential explicit-state exploration: every (state, op) of the base chart BFS replayed on all declaration variants in-process, plus run digests recomputed in subprocesses under several PYTHONHASHSEED values',
            'Every skeleton chart (<=5-6 states) is built in all sibling-permutation / transition-order / API-vs-YAML variants; each (state, op) of the complete base BFS is replayed on every variant and twice on the base; macro-step signatures (event, transitions, exit/entry order, sent events, context, error class) must be identical. A digest of a whole exploration of the deep-history+orthogonal skeletons (<=7 states) is recomputed in fresh processes per hash seed.',
            'No hand-written expectation (differential). A finite set of hash seeds; sibling permutations are sampled one group at a time above 24 combinations.',
            '§4 C07'),
    'C17': (MC, 'differential explicit-state exploration: base chart BFS replayed on every renamed chart and on the chart plugged into hosts by copy_from_statechart',
            'For every skeleton chart (incl. history, internal and external transitions) each single state, each pair and all states are renamed with rename_state to order-preserving fresh names, and the chart is copied into two hosts; every (state, op) of the base BFS must give the same signature up to the renaming; transitions keep their ends and internal flag, initial/memory follow.',
            'Differential oracle; guests without final states; code strings are opaque.',
            '§4 C17'),
    'C18': (MC, 'exhaustive enumeration of histories x snapshot boundary x continuations on the real Interpreter; lock-step comparison of twin, pickle-restored, deepcopy-restored and original',
            'Every op sequence up to depth 3-4 over 9 ops (from the initial state, and one step shorter from a second start state in which history memories are live) on a chart with __old__ contracts, deep+shallow history, orthogonal state, delayed events and mutable event payloads is snapshotted (pickle, deepcopy) at its end; every continuation of depth 2 is run on a never-snapshotted twin, both restored copies and the original, and compared step by step.',
            'One feature-dense chart; depth-bounded.',
            '§4 C18'),
    'C13': (MC, 'explicit-state BFS over clock moves (between and inside steps), events and execute_once on the real Interpreter, lock-step with a reference time model',
            'BFS (depth 8, thorough: until the capped state space is closed) over clock advances, delayed events queued from outside and sent from actions, clock moves made by a listener or an action in the middle of a step, events and execute_once on two charts using after/idle/time in guards, actions and contracts; the reference entry/idle stamps predict every predicate value, the fired transitions, MacroStep.time, the time seen by code and by the step-started meta-event; SynchronizedClock == Interpreter.time after every operation.',
            'Integer times; predicates with d<=3 so ages are capped at 4 in the canonical state; idle() inside a transition\'s own post-side contracts is not constrained.',
            '§4 C13'),
    'C16': (MC, 'explicit-state BFS over sequences of editing operations on the real Statechart against a plain-dict reference editor',
            'All sequences (depth 2-3) of add/remove/rename/move state and add/remove/rotate transition with valid and invalid arguments from four initial charts, deduplicated by canonical structure; outcome, post-structure, tree/transition/initial/memory soundness, validate() and atomicity of failed edits are compared with a reference editor written from the docstrings.',
            'Trusts the reference editor (100 lines); four initial charts; names drawn from a small pool so that removed names are re-used.',
            '§4 C16'),
    'C05': (MC, 'explicit-state BFS over interleavings of queue/send/clock/execute_once on the real Interpreter, lock-step with a reference model of the two event queues',
            'All interleavings (depth 6-8, <=3 entries per queue) of external/internal queue() with delays 0-2, clock advances and execute_once (with and without an enabled eventless transition) on three sink charts whose fragments send immediate and delayed events; each macro step must consume exactly the event the reference queues predict (identity by serial); at every state a drain proves exactly-once consumption.',
            'Trusts the 60-line reference queue model; overdue entries are treated as equivalent up to their order; exhaustive only up to the stated depth/cap because the state space is infinite.',
            '§4 C05'),
    'C14': (MC, 'explicit-state search over all clock-operation sequences on the real SimulatedClock with a scripted time source, against an exact Fraction reference clock',
            'Every sequence (depth 8-11) of start/stop/speed/time assignments (accepted and rejected) and real-time increments from a fresh SimulatedClock; after every operation value, exception, monotonicity and speed are compared with an exact reference; states merged only on identical concrete implementation state.',
            'Real time does not advance inside one clock operation; time is read only through sismic.clock.clock.time. The SynchronizedClock clause is explored on a chain of three interpreters following each other, a bound property statechart and free observers (depth 8-11), and again at every state of C13.',
            '§4 C14'),
    'C01': (MC, 'exhaustive enumeration of configurations x pending-event situations x guard valuations on the real Interpreter, compared with a reference selection function',
            'Every legal configuration of every skeleton (<=5-6 states) is reached on the real interpreter; in each, every pending-event situation and every guard valuation with <=k true guards over probe transitions of every event/priority class is executed and compared with the documented selection (eventless first, inner-first, priority, guard visibility, event consumed iff used).',
            'Trusts refmodel.select (30 lines written from docs/execution.rst). Event names are only compared for equality and priorities for order, so 3 classes each are complete for <=3 competing transitions.',
            '§4 C01'),
    'C03': (MC, 'explicit-state BFS over the real Interpreter with logging probes; per-step trace/order oracle against a reference prediction',
            'Same state space as C02 with logging probes in every entry/exit/action fragment and two declaration orders: for every executed macro step the code log must equal the MacroStep lists, the micro steps must replay to the configuration, and the documented processing/exit/entry order must hold as constraints against the reference prediction.',
            'Trusts refmodel.predict_step/complete; order between unrelated, non-sibling states is left unconstrained (don\'t care).',
            '§4 C03'),
    'C04': (MC, 'explicit-state BFS over the real Interpreter; every set of <=k simultaneously enabled transitions in every reachable configuration, expected error class from the reference model',
            'In every reachable configuration of every skeleton (<=5-6 states, event-triggered and eventless saturated transitions) every pair/triple of simultaneously enabled transitions is executed; the reference classification (ok / NonDeterminismError / ConflictingTransitionsError) must be matched, and a failed step must leave configuration, code log, context and the pending event untouched.',
            'Trusts refmodel.classify. A target equal to the source\'s own region state is a don\'t-care.',
            '§4 C04'),
    'C06': (MC, 'explicit-state BFS over (configuration, history memory) of the real Interpreter on all skeletons containing history states; restoration compared with reference snapshots',
            'For every skeleton with a shallow/deep history state (<=6-7 states) the complete space of (configuration, recorded memory) is explored; each step that enters a history state must restore exactly the reference snapshot (direct child / whole sub-configuration / default memory), parents first, and end in the predicted configuration.',
            'Trusts the snapshot definition (active descendants of the parent when its exit began).',
            '§4 C06'),
    # id: (level, technique, text, note, design_ref)
    'C02': (MC, 'explicit-state BFS over the real Interpreter on all saturated skeleton charts; invariant on every state',
            'Complete breadth-first exploration of (configuration, history memory) for every statechart skeleton up to 6-7 states, '
            'every set of <=k simultaneously true guards in every state; legality/stability/final invariant after every returning call. '
            'Bounded exhaustive: the right level because the property is an invariant over a finite state space per chart.',
            'Trusts the reference legality/default-completion definition (mc/refmodel.py, DESIGN.md §2) and the saturation argument (false guard == absent transition). Charts above the size bound are not covered.',
            '§4 C02'),
}
ALL = ['C%02d' % i for i in range(1, 21)]
NOT_YET = 'check not built yet in this round (planned, see DESIGN.md §4/§8)'


def main():
    checks = []
    for pid in ALL:
        if pid not in CHECKS:
            continue
        level, tech, text, note, ref = CHECKS[pid]
        checks.append({
            'property_id': pid,
            'quick_cmd': '%s verify.py %s --tier quick' % (PY, pid),
            'thorough_cmd': '%s verify.py %s --tier thorough' % (PY, pid),
            'evidence_file': 'evidence/%s.json' % pid,
            'replay_cmd_template': '%s replay.py {path}' % PY,
            'engine': 'mc',
            'level_claimed': {'category': level, 'text': text, 'design_ref': 'DESIGN.md ' + ref},
            'level_note': note,
            'technique': tech,
        })
    m = {
        'version': 1,
        'setup_cmd': '%s verify.py --selftest' % PY,
        'hooks': {
            'guard': 'SISMIC_VERIF',
            'enable': 'no source hooks are needed: probes enter through initial_context, the runner and the clock are controlled through their module namespaces and sys.settrace; checks import sismic from /repo (or $SISMIC_SRC)',
            'baseline_off_cmd': 'cd /repo && /venv/bin/python -m pytest -ra -q -p no:cacheprovider --timeout=900 --continue-on-collection-errors',
            'source_commits': [],
            'add_only': True,
        },
        'engines': [{
            'name': 'mc', 'path': 'mc/',
            'serves_properties': sorted(CHECKS),
            'kind_free_text': 'hand-written explicit-state / stateless explorers driving the real sismic code, with an independent reference model as oracle',
        }],
        'checks': checks,
        'not_applicable': [{'property_id': p, 'reason': NOT_YET} for p in ALL if p not in CHECKS],
        'notes': 'All checks run with /venv/bin/python from /verif; known findings in known_findings.json; violations are written to replays/.',
    }
    with open(os.path.join(HERE, 'MANIFEST.json'), 'w') as f:
        json.dump(m, f, indent=1)
    print('MANIFEST.json: %d checks, %d not_applicable' % (len(checks), len(m['not_applicable'])))


if __name__ == '__main__':
    main()
