#!/usr/bin/env python3
"""print a markdown table of what the evidence files currently say (one row per check)"""
import glob, json, os
HERE = os.path.dirname(os.path.dirname(os.path.abspath(__file__)))
print('| check | tier | programs | states | executions / cases | exhaustive within bounds | wall (s) | violations | known |')
print('|---|---|---|---|---|---|---|---|---|')
for f in sorted(glob.glob(os.path.join(HERE, 'evidence', 'C*.json'))):
    e = json.load(open(f)); c = e['coverage']
    print('| %s | %s | %s | %s | %s | %s | %s | %s | %s |' % (
        e['property_id'], e['tier'], c.get('programs', '-'), c.get('states', '-'),
        c.get('transitions', c.get('evaluations', '-')), c.get('exhaustive'), e['wall_s'], e.get('violations'),
        len(e.get('known_findings_reproduced', []))))
