#!/bin/bash
# Run the repository's pinned test-suite (guard off) in directory $1 (default /repo) and compare with
# /root/.vp/BASELINE.json: prints OK if every stable_pass test passes.
DIR=${1:-/repo}
OUT=$(mktemp /dev/shm/junit.XXXXXX.xml)
cd "$DIR" && env -u SISMIC_VERIF -u SISMIC_SRC /venv/bin/python -m pytest -q -p no:cacheprovider --timeout=900 \
  --continue-on-collection-errors --junitxml="$OUT" >/dev/shm/baseline.$$.log 2>&1
/venv/bin/python - "$OUT" <<'PY'
import json, sys, xml.etree.ElementTree as ET
base = json.load(open('/root/.vp/BASELINE.json'))
root = ET.parse(sys.argv[1]).getroot()
passed = set()
for tc in root.iter('testcase'):
    bad = [c for c in tc if c.tag in ('failure', 'error', 'skipped')]
    cls = tc.get('classname'); name = tc.get('name')
    if not bad:
        passed.add('%s::%s' % (cls, name))
missing = [t for t in base['stable_pass'] if t not in passed]
print('passed', len(passed), 'baseline', len(base['stable_pass']), 'missing', len(missing))
for m in missing[:20]: print('  MISSING', m)
print('BASELINE-OK' if not missing else 'BASELINE-BROKEN')
sys.exit(0 if not missing else 1)
PY
RC=$?
rm -f "$OUT" /dev/shm/baseline.$$.log
exit $RC
