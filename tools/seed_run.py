#!/venv/bin/python
"""Run checks against a seeded property-breaking change without touching /repo.

usage: seed_run.py <dir with patch.diff [demo.py]> [--checks C01,C02] [--tier quick] [--no-baseline]
Copies /repo's working tree to /dev/shm/sismic-mut-<pid>, applies the patch there, optionally runs
the pinned test-suite (must stay at baseline) and the demo (must fail with / pass without the patch),
then runs the named checks with SISMIC_SRC pointing at the copy.  Removes the copy afterwards."""
import argparse
import json
import os
import shutil
import subprocess
import sys
import time

HERE = os.path.dirname(os.path.dirname(os.path.abspath(__file__)))


def sh(cmd, cwd=None, env=None, timeout=3600):
    p = subprocess.run(cmd, shell=True, cwd=cwd, env=env, stdout=subprocess.PIPE,
                       stderr=subprocess.STDOUT, text=True, timeout=timeout)
    return p.returncode, p.stdout


def main():
    ap = argparse.ArgumentParser()
    ap.add_argument('dir')
    ap.add_argument('--checks', default='')
    ap.add_argument('--tier', default='quick')
    ap.add_argument('--no-baseline', action='store_true')
    ap.add_argument('--no-demo', action='store_true')
    a = ap.parse_args()
    d = os.path.abspath(a.dir)
    patch = os.path.join(d, 'patch.diff')
    demo = os.path.join(d, 'demo.py')
    meta = {}
    if os.path.exists(os.path.join(d, 'meta.json')):
        meta = json.load(open(os.path.join(d, 'meta.json')))
    checks = [c for c in a.checks.split(',') if c] or [meta.get('property')]
    copy = '/dev/shm/sismic-mut-%d' % os.getpid()
    out = {'dir': d, 'checks': {}}
    try:
        sh('rm -rf %s && mkdir -p %s && cd /repo && git ls-files -z | xargs -0 cp --parents -t %s'
           % (copy, copy, copy))
        if os.path.exists(demo) and not a.no_demo:
            env = dict(os.environ, PYTHONPATH=copy, PYTHONDONTWRITEBYTECODE='1')
            rc0, o0 = sh('/venv/bin/python %s' % demo, cwd=copy, env=env, timeout=600)
            out['demo_without_patch_rc'] = rc0
        rc, o = sh('git apply --unsafe-paths --directory=%s %s' % (copy, patch), cwd='/')
        out['apply_rc'] = rc
        if rc != 0:
            print(o)
            print(json.dumps(out, indent=1))
            return 2
        if os.path.exists(demo) and not a.no_demo:
            rc1, o1 = sh('/venv/bin/python %s' % demo, cwd=copy, env=env, timeout=600)
            out['demo_with_patch_rc'] = rc1
            out['demo_with_patch_tail'] = o1.strip().splitlines()[-3:]
        if not a.no_baseline:
            rc, o = sh('%s/tools/baseline.sh %s' % (HERE, copy), timeout=1800)
            out['baseline'] = o.strip().splitlines()[-1] if o.strip() else 'no output'
            out['baseline_detail'] = [l for l in o.splitlines() if 'MISSING' in l][:5]
        for c in checks:
            t0 = time.time()
            env = dict(os.environ, SISMIC_SRC=copy, PYTHONDONTWRITEBYTECODE='1',
                       VERIF_EVIDENCE_DIR='/dev/shm/ev-%d' % os.getpid())
            rc, o = sh('/venv/bin/python %s/verify.py %s --tier %s' % (HERE, c, a.tier), cwd=HERE,
                       env=env, timeout=7200)
            lines = [l for l in o.splitlines() if 'conda' not in l]
            out['checks'][c] = {
                'rc': rc, 'detected': rc == 1 and any(l.startswith('VIOLATION') for l in lines),
                'wall_s': round(time.time() - t0, 1),
                'first': [l for l in lines if l.startswith('  ')][:3],
                'tail': lines[-1:] }
    finally:
        shutil.rmtree(copy, ignore_errors=True)
        shutil.rmtree('/dev/shm/ev-%d' % os.getpid(), ignore_errors=True)
    print(json.dumps(out, indent=1))
    return 0


if __name__ == '__main__':
    sys.exit(main())
