#!/usr/bin/env python3
"""validate MANIFEST.json and every evidence file against the schemas in /root/.vp"""
import json, glob, sys, os
import jsonschema
ok = True
m = json.load(open('/verif/MANIFEST.json'))
jsonschema.validate(m, json.load(open('/root/.vp/MANIFEST.schema.json')))
print('MANIFEST ok:', len(m['checks']), 'checks')
es = json.load(open('/root/.vp/EVIDENCE.schema.json'))
for c in m['checks']:
    p = os.path.join('/verif', c['evidence_file'])
    if not os.path.exists(p):
        print('MISSING evidence', p); ok = False; continue
    try:
        e = json.load(open(p)); jsonschema.validate(e, es)
        assert e['level'] == c['level_claimed']['category'], 'level mismatch'
        print('evidence ok', c['property_id'], e['tier'], e['wall_s'])
    except Exception as ex:
        print('INVALID', p, str(ex)[:300]); ok = False
sys.exit(0 if ok else 1)
