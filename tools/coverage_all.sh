#!/bin/bash
# Statement/branch coverage of /repo/sismic reached by the checks (a map of what the alphabets never touch,
# used while extending them; not a check).  usage: coverage_all.sh [tier] [ids...]   -> /dev/shm/cov/report.txt
tier=${1:-quick}; shift
ids=${@:-C01 C02 C03 C04 C05 C06 C07 C08 C09 C10 C11 C12 C13 C14 C15 C16 C17 C18 C19 C20}
d=/dev/shm/cov; mkdir -p $d; rm -f $d/data*
cat > $d/rc <<EOT
[run]
source = /repo/sismic
branch = true
concurrency = multiprocessing,thread
parallel = true
data_file = $d/data
EOT
cd $(dirname $(dirname $(readlink -f $0)))
for c in $ids; do
  VERIF_EVIDENCE_DIR=$d/ev /venv/bin/python -m coverage run --rcfile=$d/rc verify.py $c --tier $tier 2>&1 | tail -1
done
/venv/bin/python -m coverage combine --rcfile=$d/rc >/dev/null
/venv/bin/python -m coverage report --rcfile=$d/rc -m > $d/report.txt
tail -40 $d/report.txt
