#!/venv/bin/python
"""Run every seeded change (seeded/*/) against its property's check and store the outcome in
seeded/<id>/result.json (baseline, demo with/without, detection).  usage: seed_all.py [ids...] [--tier quick]"""
import json, os, subprocess, sys
HERE = os.path.dirname(os.path.dirname(os.path.abspath(__file__)))
ids = [a for a in sys.argv[1:] if not a.startswith('--')]
tier = 'quick'
if '--tier' in sys.argv:
    tier = sys.argv[sys.argv.index('--tier') + 1]
    ids = [i for i in ids if i != tier]
rows = []
for d in sorted(os.listdir(os.path.join(HERE, 'seeded'))):
    if ids and d not in ids:
        continue
    path = os.path.join(HERE, 'seeded', d)
    if not os.path.exists(os.path.join(path, 'patch.diff')):
        continue
    p = subprocess.run([sys.executable, os.path.join(HERE, 'tools', 'seed_run.py'), path, '--tier', tier],
                       stdout=subprocess.PIPE, stderr=subprocess.STDOUT, text=True)
    txt = p.stdout[p.stdout.index('{'):] if '{' in p.stdout else '{}'
    try:
        r = json.loads(txt)
    except Exception:
        r = {'error': p.stdout[-500:]}
    r['tier'] = tier
    r['repo_head'] = subprocess.check_output(['git', '-C', '/repo', 'log', '--format=%h', '-1'], text=True).strip()
    json.dump(r, open(os.path.join(path, 'result.json'), 'w'), indent=1)
    det = {k: v.get('detected') for k, v in r.get('checks', {}).items()}
    row = (d, r.get('apply_rc'), r.get('demo_without_patch_rc'), r.get('demo_with_patch_rc'), r.get('baseline'), det)
    rows.append(row)
    print('%-8s apply=%s demo(without,with)=(%s,%s) %s detected=%s' % row)
    sys.stdout.flush()
