#!/venv/bin/python
"""Run every seeded change (seeded/*/) against its property's check and store the outcome in
seeded/<id>/result.json (baseline, demo with/without, detection).  usage: seed_all.py [ids...] [--tier quick] [--jobs N]"""
import json, os, subprocess, sys
HERE = os.path.dirname(os.path.dirname(os.path.abspath(__file__)))
jobs = 1
if '--jobs' in sys.argv:
    jobs = int(sys.argv[sys.argv.index('--jobs') + 1])
    del sys.argv[sys.argv.index('--jobs'):sys.argv.index('--jobs') + 2]
no_baseline = '--no-baseline' in sys.argv      # keep the baseline verdict recorded when the seed was confirmed
ids = [a for a in sys.argv[1:] if not a.startswith('--')]
tier = 'quick'
if '--tier' in sys.argv:
    tier = sys.argv[sys.argv.index('--tier') + 1]
    ids = [i for i in ids if i != tier]
from concurrent.futures import ThreadPoolExecutor


def one(d):
    path = os.path.join(HERE, 'seeded', d)
    old = {}
    if no_baseline and os.path.exists(os.path.join(path, 'result.json')):
        old = json.load(open(os.path.join(path, 'result.json')))
    p = subprocess.run([sys.executable, os.path.join(HERE, 'tools', 'seed_run.py'), path, '--tier', tier]
                       + (['--no-baseline'] if no_baseline else []),
                       stdout=subprocess.PIPE, stderr=subprocess.STDOUT, text=True)
    txt = p.stdout[p.stdout.index('{'):] if '{' in p.stdout else '{}'
    try:
        r = json.loads(txt)
    except Exception:
        r = {'error': p.stdout[-500:]}
    if no_baseline:
        r['baseline'] = old.get('baseline')
        r['baseline_detail'] = old.get('baseline_detail', [])
        r['baseline_checked_at'] = old.get('repo_head')
    r['tier'] = tier
    r['repo_head'] = subprocess.check_output(['git', '-C', '/repo', 'log', '--format=%h', '-1'], text=True).strip()
    json.dump(r, open(os.path.join(path, 'result.json'), 'w'), indent=1)
    # the confirmation asked for by the brief, kept next to the agent's own account
    mp = os.path.join(path, 'meta.json')
    if os.path.exists(mp):
        meta = json.load(open(mp))
        meta['breaks_property'] = meta.get('property')
        meta['confirmed_in_scratch_copy'] = {
            'how': 'tools/seed_run.py: /repo working tree copied to /dev/shm, patch applied with git apply; pinned '
                   'test-suite via tools/baseline.sh; demo.py run without and with the patch; the property check run '
                   'with SISMIC_SRC pointing at the copy',
            'repo_head': r['repo_head'], 'baseline_with_patch': r.get('baseline'),
            'demo_exit_without_patch': r.get('demo_without_patch_rc'),
            'demo_exit_with_patch': r.get('demo_with_patch_rc'),
            'checks': {k: {'detected': v.get('detected'), 'tier': tier, 'wall_s': v.get('wall_s')}
                       for k, v in r.get('checks', {}).items()}}
        json.dump(meta, open(mp, 'w'), indent=1)
    det = {k: v.get('detected') for k, v in r.get('checks', {}).items()}
    row = (d, r.get('apply_rc'), r.get('demo_without_patch_rc'), r.get('demo_with_patch_rc'), r.get('baseline'), det)
    print('%-8s apply=%s demo(without,with)=(%s,%s) %s detected=%s' % row)
    sys.stdout.flush()
    return row


todo = [d for d in sorted(os.listdir(os.path.join(HERE, 'seeded')))
        if (not ids or d in ids) and os.path.exists(os.path.join(HERE, 'seeded', d, 'patch.diff'))]
with ThreadPoolExecutor(jobs) as ex:
    rows = list(ex.map(one, todo))
bad = [r for r in rows if r[1] != 0 or r[2] != 0 or r[3] != 1 or r[4] != 'BASELINE-OK' or not all(r[5].values())]
print('%d seeds, %d not fully confirmed/detected: %s' % (len(rows), len(bad), [r[0] for r in bad]))
