#!/venv/bin/python
"""print the prompt given to a fresh sub-agent asked for a property-breaking change (seeded defect).
usage: mk_agent_prompt.py C05 /tmp/wt-c05 [variant-hint]"""
import json, sys
pid, wt = sys.argv[1], sys.argv[2]
hint = sys.argv[3] if len(sys.argv) > 3 else ''
p = [json.loads(l) for l in open('/verif/properties.jsonl') if json.loads(l)['id'] == pid][0]
print(f"""You are helping to evaluate a verification effort for the open-source Python library sismic (a statechart interpreter, repository AlexandreDecan/sismic). Your job: produce ONE realistic, subtle code change ("seeded defect") to the library that BREAKS the semantic property stated below, while the library still imports and its existing test-suite still passes.

Work ONLY inside your own scratch git worktree of the repository: {wt}   (never touch /repo or /verif, never commit anywhere, never read anything under /verif).
Use the Python interpreter /venv/bin/python. When run from inside {wt}, `import sismic` resolves to the worktree's copy (check with `cd {wt} && /venv/bin/python -c "import sismic; print(sismic.__file__)"`).

THE PROPERTY ({pid}: {p['title']})
{p['statement']}
Quantifier: {p['quantifier']['text']}
Code it is anchored in: {', '.join(p['anchors']['files'])}

WHAT TO PRODUCE
1. A change to the library source under {wt}/sismic/ (not to tests, docs or examples) that makes the property false for SOME inputs. It must be the kind of mistake a maintainer could plausibly make in a refactoring or "optimisation" (an off-by-one, a wrong comparison, a dropped sort, a cached value not invalidated, a check moved before/after another step, state shared where it should be copied, two sites that each look fine alone...). {hint}
2. IMPORTANT: the defect must need something SPECIFIC to manifest — a particular multi-step sequence of operations, an unusual statechart shape (e.g. nested orthogonal states, history under a region, equal priorities...), an unusual input, a particular timing/interleaving, or two cooperating code sites — NOT something ordinary use would expose at once. Ordinary simple statecharts and the shipped examples must keep working.
3. The existing test-suite must still pass with your change. Run it from the worktree:
     cd {wt} && /venv/bin/python -m pytest -q -p no:cacheprovider --timeout=900 --continue-on-collection-errors -x -q 2>&1 | tail -15
   NOTE: exactly these 7 tests fail already WITHOUT any change (they are known baseline failures, ignore them; do not use -x if it stops on them): docs/examples/microwave/test_microwave.py::MicrowaveTests::test_increase_timer, ::test_no_heating_when_door_is_not_closed, tests/test_bdd.py::TestMicrowave::test_microwave_with_steps[contract], [no contract], ::test_microwave_with_steps_and_properties[contract], [no contract], tests/test_bdd.py::test_cli. Every other test (340 of them) must still pass.
4. A demonstration: a small standalone script {wt}/_seed/demo.py (run as `cd {wt} && /venv/bin/python _seed/demo.py`) that exits with status 1 (printing what went wrong) WITH your change and exits 0 WITHOUT it (verify both with `git diff -- sismic > _seed/patch.diff; git checkout -- sismic; <run demo>; git apply _seed/patch.diff`; do NOT use `git stash`: the stash is shared with other worktrees of the same repository). The demo must check the property's observable behaviour through the public API, not internals. NOTE: a script run as `python _seed/demo.py` has `_seed/` (not the worktree root) as sys.path[0] and would import the installed copy of sismic: start demo.py with `import os, sys; sys.path.insert(0, os.path.dirname(os.path.dirname(os.path.abspath(__file__))))` and print sismic.__file__ to confirm.
5. Save the change as a unified diff: `cd {wt} && git diff -- sismic > _seed/patch.diff` (the diff must apply with `git apply` on a clean checkout of the same commit). Leave the change applied in the worktree too.
6. Write {wt}/_seed/meta.json: {{"property": "{pid}", "summary": "<one sentence: what the change does>", "needs": "<what specific situation is needed for it to manifest>", "files": [...], "tests_run": "<the command you ran and its pass/fail counts>"}}.

Do not weaken or delete tests. Do not add new dependencies. Keep the diff small (typically < 20 changed lines). Finish by reporting: the diff, what it needs to manifest, the demo's output with and without the change, and the test-suite result.""")
