#!/bin/bash
# run_all.sh <tier> [ids...]: run the checks one after the other, print one line per check
TIER=${1:-quick}; shift
IDS=${@:-C01 C02 C03 C04 C05 C06 C07 C08 C09 C10 C11 C12 C13 C14 C15 C16 C17 C18 C19 C20}
cd "$(dirname "$0")/.."
for c in $IDS; do
  s=$(date +%s)
  out=$(/venv/bin/python verify.py $c --tier $TIER 2>&1 | grep -v conda); rc=${PIPESTATUS[0]}
  e=$(date +%s)
  echo "$c rc=$rc wall=$((e-s))s $(echo "$out" | grep -c '^VIOLATION') violations, $(echo "$out" | grep -c '^KNOWN-FINDING') known :: $(echo "$out" | tail -1)"
done
