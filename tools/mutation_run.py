#!/venv/bin/python
"""mutation_run.py [--prop C14 | ids...] [--baseline] [--tier quick]
Apply each catalogued edit to a scratch copy of /repo (in /dev/shm), run the property's check with
SISMIC_SRC pointing at the copy, report DETECTED / MISSED (and baseline OK/BROKEN if asked)."""
import argparse, os, shutil, subprocess, sys, time
HERE = os.path.dirname(os.path.dirname(os.path.abspath(__file__)))
sys.path.insert(0, HERE)
from mutants.catalog import M


def sh(cmd, env=None, cwd=None):
    p = subprocess.run(cmd, shell=True, env=env, cwd=cwd, stdout=subprocess.PIPE, stderr=subprocess.STDOUT, text=True)
    return p.returncode, p.stdout


def main():
    ap = argparse.ArgumentParser()
    ap.add_argument('ids', nargs='*')
    ap.add_argument('--prop')
    ap.add_argument('--baseline', action='store_true')
    ap.add_argument('--tier', default='quick')
    a = ap.parse_args()
    sel = [x for x in M if (x['id'] in a.ids) or (a.prop and x['prop'] == a.prop) or (not a.ids and not a.prop)]
    for x in sel:
        copy = '/dev/shm/sismic-mut-%d' % os.getpid()
        try:
            sh('rm -rf %s && mkdir -p %s && cd /repo && git ls-files -z | xargs -0 cp --parents -t %s' % (copy, copy, copy))
            p = os.path.join(copy, x['file'])
            s = open(p).read()
            if x['old'] not in s:
                print('%-24s STALE (pattern not found)' % x['id']); continue
            open(p, 'w').write(s.replace(x['old'], x['new'], 1))
            base = ''
            if a.baseline:
                rc, o = sh('%s/tools/baseline.sh %s' % (HERE, copy))
                base = o.strip().splitlines()[-1]
            for c in x['checks']:
                t0 = time.time()
                env = dict(os.environ, SISMIC_SRC=copy, PYTHONDONTWRITEBYTECODE='1', VERIF_EVIDENCE_DIR='/dev/shm/ev-%d' % os.getpid())
                rc, o = sh('/venv/bin/python %s/verify.py %s --tier %s' % (HERE, c, a.tier), env=env, cwd=HERE)
                det = rc == 1 and 'VIOLATION property=' in o
                first = [l.strip() for l in o.splitlines() if l.startswith('  ') and ' x] ' not in l][:1]
                print('%-24s %-4s %-9s %5.1fs %s %s' % (x['id'], c, 'DETECTED' if det else 'MISSED(rc=%d)' % rc, time.time() - t0, base, (first[0][:150] if first else '')))
                if not det and rc not in (0, 1):
                    print(o[-800:])
        finally:
            shutil.rmtree(copy, ignore_errors=True)
            shutil.rmtree('/dev/shm/ev-%d' % os.getpid(), ignore_errors=True)


if __name__ == '__main__':
    main()
