#!/venv/bin/python
"""For each seeded change: apply it to a scratch copy, run the check, take the first replay file it
wrote and feed it to replay.py (against the same scratch copy).  Checks that every check's replay
path works end to end.  usage: replay_smoke.py [seed ids...]"""
import glob, json, os, shutil, subprocess, sys
HERE = os.path.dirname(os.path.dirname(os.path.abspath(__file__)))
ids = sys.argv[1:] or sorted(d for d in os.listdir(os.path.join(HERE, 'seeded')) if d.endswith('-a'))
for d in ids:
    path = os.path.join(HERE, 'seeded', d)
    prop = json.load(open(os.path.join(path, 'meta.json')))['property']
    copy = '/dev/shm/sismic-rs-%d' % os.getpid()
    evd = '/dev/shm/ev-rs-%d' % os.getpid()
    try:
        subprocess.run('rm -rf %s %s && mkdir -p %s && cd /repo && git ls-files -z | xargs -0 cp --parents -t %s' % (copy, evd, copy, copy), shell=True)
        r = subprocess.run('git apply --unsafe-paths --directory=%s %s' % (copy, os.path.join(path, 'patch.diff')), shell=True, cwd='/')
        env = dict(os.environ, SISMIC_SRC=copy, VERIF_EVIDENCE_DIR=evd, PYTHONDONTWRITEBYTECODE='1')
        subprocess.run(['/venv/bin/python', 'verify.py', prop, '--tier', 'quick'], cwd=HERE, env=env, stdout=subprocess.DEVNULL, stderr=subprocess.DEVNULL)
        files = sorted(glob.glob(os.path.join(evd, 'replays', '*.json')))
        if not files:
            print('%-7s %s NO REPLAY FILE' % (d, prop)); continue
        p = subprocess.run(['/venv/bin/python', 'replay.py', files[0]], cwd=HERE, env=env, stdout=subprocess.PIPE, stderr=subprocess.STDOUT, text=True)
        tail = [l for l in p.stdout.splitlines() if 'conda' not in l][-1:]
        print('%-7s %s replay rc=%d lines=%d :: %s' % (d, prop, p.returncode, len(p.stdout.splitlines()), tail[0][:140] if tail else ''))
        if p.returncode != 0:
            print(p.stdout[-1500:])
    finally:
        shutil.rmtree(copy, ignore_errors=True); shutil.rmtree(evd, ignore_errors=True)
